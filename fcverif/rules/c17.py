"""C17 - shell quoting of paths and arguments is lossless."""
import re
from . import register
from ..analysis import (backslice, comparisons, truth_table, table_equals, closure_creation, forward_locals, slice_const_values,
                        direct_def, switch_targets_bool)
from ..units import unit_of, str_index_sinks
from ..facts import const_val, op_const, op_local, const_int

DOC = {
    'explanation': 'The language-level claim (all strings, bash) is not decidable here. Decided clauses: in arg::split string slices are indexed with byte offsets, never with a '
                   'character counter (R1); SPECIAL_CHARS contains every POSIX shell metacharacter that the first quoting branch does not already handle (R2); the first branch of '
                   'quote() triggers on C0 controls, DEL, U+FFFD and the single quote, the second wraps in single quotes (R3); the $\'...\' encoder and decoder are inverse '
                   'pairs in inverse order (R4).',
    'rules': {
        'C17.R1': 'arg::split: every &s[a..b] is indexed by byte offsets (unit lint: a counter incremented by 1 per char is CHARS)',
        'C17.R2': 'SPECIAL_CHARS is a superset of | & ; < > ( ) $ ` \\ " space tab * ? [ # ~ = % { } and ! (history expansion in interactive shells)',
        'C17.R3': "quote(): branch 1 iff any char < 0x20, == 0x7f, == U+FFFD or == '\\''; branch 2 iff any char in SPECIAL_CHARS -> '...'; else bare - and bare only for a non-empty argument",
        'C17.R5': 'splitter/quoter agreement: every character arg::split treats specially (delimiters, quotes, escapes, comment) forces quoting in arg::quote; split uses no character-class predicate that quote does not mirror',
        'C17.R4': "$'..' encode = to_stfu8 then replace(' -> \\'); decode = replace(\\' -> ') then from_stfu8",
    },
    'not_decided': 'bash\'s own tokenisation; the stfu8 crate; equality of the round trip for all strings (needs a reference model / fuzzing)',
    'assumptions': ['POSIX XCU 2.2 list of characters that must be quoted'],
}

POSIX = ['|', '&', ';', '<', '>', '(', ')', '$', '`', '\\', '"', ' ', '\t', '*', '?', '[', '#', '~', '=', '%', '{', '}', '!']     # '!': history expansion of interactive bash/zsh/csh (the script is meant to be pasted into a shell)


def const_chars(lib, item):
    b = lib.body(item)
    if b is None:
        return None
    out = []
    for blk in b.blocks:
        for s in blk['stmts']:
            if s['rv']['k'] == 'agg' and s['rv'].get('ak') == 'array':
                for o in s['rv']['ops']:
                    v = const_val(o) or ''
                    m = re.match(r"^(?:const )?'(.*)'$", v, re.S)
                    if m:
                        out.append(unesc(m.group(1)))
    return out


def cvals(lib, body, op):
    """constant values (also through promoted constants) an operand bottoms out in, without the `const ` prefix"""
    return [(v or '').replace('const ', '', 1) for v in slice_const_values(lib, backslice(body, [op]))]


def unesc(s):
    if s.startswith('\\u{'):
        return chr(int(s[3:-1], 16))
    table = {'\\t': '\t', '\\n': '\n', '\\r': '\r', "\\'": "'", '\\\\': '\\', '\\"': '"', '\\0': '\0'}
    return table.get(s, s)


@register('C17', DOC)
def run(ctx):
    lib = ctx.lib
    r1(ctx, lib)
    r2(ctx, lib)
    r3(ctx, lib)
    r4(ctx, lib)
    r5(ctx, lib)
    if ctx.tier == 'thorough' and not getattr(ctx, 'sibling', None):
        from .. import sweep
        sweep.units(ctx, 'C17.R1')


def r1(ctx, lib):
    rule = 'C17.R1'
    b = ctx.need_body(rule, 'arg::split')
    if b is None:
        return
    sinks = str_index_sinks(b)
    if not ctx.floor(rule, 'string slicing sites in arg::split', len(sinks), 1, b.where()):
        return
    for c, ops in sinks:
        for i, o in enumerate(ops):
            u, counters = unit_of(b, o)
            names = ','.join(sorted(str(b.local_name(l)) for l in counters))
            key = '%s|slice-operand-%d' % (b.path, i)
            ctx.check(u != 'CHARS' and u != 'MIXED', rule, key, c.where(), 'slice bound %d is a %s' % (i, u or 'constant/unknown unit'),
                      'the string is sliced with `%s`, a counter incremented by 1 per *character*: after any non-ASCII character the byte offset is wrong (wrong text or a panic on a char boundary)' % names)
    # positive control for the lint: the loop advances a Chars iterator
    ctx.check(bool(b.calls(r'Chars.*Iterator>::next$')), rule, b.path + '|lint-control', b.where(), 'the scanner advances a str::Chars iterator (the lint has its anchor)', 'the scanner no longer iterates str::Chars: unit lint has no anchor')


def r2(ctx, lib):
    rule = 'C17.R2'
    chars = const_chars(lib, 'arg::SPECIAL_CHARS')
    if chars is None:
        ctx.missing(rule, 'const arg::SPECIAL_CHARS')
        return
    ctx.floor(rule, 'SPECIAL_CHARS elements', len(chars), 20)
    missing = [c for c in POSIX if c not in chars]
    b = lib.body('arg::SPECIAL_CHARS')
    look = [c for c in chars if ord(c) > 0x7f]
    ctx.check(not missing, rule, 'arg::SPECIAL_CHARS|superset', b.where(), 'contains all %d POSIX metacharacters' % len(POSIX),
              'missing shell metacharacter(s) %s%s: such arguments are printed bare and bash expands them' % (missing, (' (note the look-alike(s) %s in the table)' % [hex(ord(c)) for c in look]) if look else ''))


def r3(ctx, lib):
    rule = 'C17.R3'
    b = ctx.need_body(rule, 'arg::quote')
    if b is None:
        return
    anys = b.calls(r'Iterator::any$|::any$')
    if not ctx.floor(rule, 'any() tests in quote', len(anys), 2, b.where()):
        return
    clos = {}
    for cp in lib.closures_of(b.path, recursive=False):
        cr = closure_creation(lib, cp)
        for a in anys:
            if cr and op_local(a.args[1]) in forward_locals(b, cr[2]['p'][0]):
                clos[a.bb] = lib.body(cp)
    from ..analysis import callable_body
    for a in anys:
        if a.bb not in clos:
            fb = callable_body(lib, b, a.args[1])       # `.any(is_special)`: a named function instead of a closure
            if fb is not None:
                clos[a.bb] = fb
    anys.sort(key=lambda c: c.line)
    first = clos.get(sorted(anys, key=lambda c: len(b.dominators()[c.bb]))[0].bb)
    order = sorted(anys, key=lambda c: len(b.dominators()[c.bb]))
    c1, c2 = clos.get(order[0].bb), clos.get(order[1].bb)
    if c1 is None or c2 is None:
        ctx.missing(rule, 'predicate closures of quote', b.where())
        return
    ctx.fn(c1, c2)
    cm = comparisons(c1)
    got = set()
    atoms = {}
    for i, c in enumerate(cm):
        ka, kb = const_val(c.a), const_val(c.b)
        k = kb if kb else ka
        m = re.match(r"^(?:const )?'(.*)'$", k or '', re.S)
        ch = unesc(m.group(1)) if m else None
        if ch is None:
            sl = backslice(c1, [c.b])
            vals = slice_const_values(lib, sl)
            for v in vals:
                m = re.match(r"^(?:const )?'(.*)'$", v or '', re.S)
                if m:
                    ch = unesc(m.group(1))
        op = c.op
        if kb is None and ka is not None:
            from ..analysis import FLIP
            op = FLIP.get(op, op)         # `'\u{20}' > c` is `c < '\u{20}'`
        got.add((op, ord(ch) if ch else None))
        atoms['a%d' % i] = c.bb
    want = {('<', 0x20), ('==', 0x7f), ('==', 0xfffd), ('==', 0x27)}
    ctx.check(got == want, rule, c1.path + '|branch1-conditions', c1.where(), "branch 1: c < U+0020 | c == DEL | c == U+FFFD | c == '", 'branch 1 conditions are %s' % sorted(got, key=str))
    if len(atoms) == 4:
        tt = truth_table(c1, atoms)
        ok, why = table_equals(tt, lambda a: a['a0'] or a['a1'] or a['a2'] or a['a3'])
        ctx.check(ok, rule, c1.path + '|branch1-or', c1.where(), 'the four conditions are OR-ed (%s)' % why, 'branch 1 conditions are not a disjunction: %s' % why)
    # branch 2: SPECIAL_CHARS.contains
    sc = c2.calls(r'::contains$')
    ok2 = bool(sc) and any('SPECIAL_CHARS' in v for v in cvals(lib, c2, sc[0].args[0]))
    ctx.check(ok2, rule, c2.path + '|branch2-condition', c2.where(), 'branch 2: SPECIAL_CHARS.contains(c)', 'branch 2 does not test SPECIAL_CHARS')
    # templates
    snips = [c.t.get('snip') for c in b.calls() if c.t.get('snip') and 'format!' in c.t.get('snip')]
    t1 = [s for s in snips if s.startswith('format!("$\'{}\'"')]
    t2 = [s for s in snips if s.startswith('format!("\'{lossy}\'"') or s.startswith('format!("\'{}\'"')]
    ctx.check(bool(t1) and bool(t2), rule, b.path + '|templates', b.where(), "templates $'{}' and '{}'", 'quoting templates are %s' % sorted(set(snips)))
    # order: branch 1 is tested first; branch 2 on its false side
    br1 = None
    for (bbx, idx, what) in b.operand_uses(order[0].dest[0]):
        if what[0] == 'switch':
            br1 = what[1]
    if br1:
        tt_, ft_ = switch_targets_bool(br1)
        ctx.check(b.dominates(ft_, order[1].bb), rule, b.path + '|order', order[1].where(), 'SPECIAL_CHARS are considered only when branch 1 does not apply', 'branch order changed')
    # the bare branch must not be taken for the empty string: an empty word printed bare vanishes from the command line
    bare = [c for c in b.calls(r'ToString>::to_string$|ToString::to_string$|String::from$|Cow<.*>::into_owned$|::to_owned$') if backslice(b, [c.args[0]]).has_call(r'to_string_lossy$')]
    if not bare:
        ctx.missing(rule, 'the bare return of quote()', b.where())
    else:
        okE = False
        for e in b.calls(r'::is_empty$'):
            if not (backslice(b, [e.args[0]]).has_call(r'to_string_lossy$') or 1 in backslice(b, [e.args[0]]).params):
                continue
            for (bbx, idx, what) in b.operand_uses(e.dest[0]):
                if what[0] == 'switch':
                    tt_, ft_ = switch_targets_bool(what[1])
                    if ft_ is not None and all(b.dominates(ft_, c.bb) for c in bare):
                        okE = True
        ctx.check(okE, rule, b.path + '|empty-is-quoted', bare[0].where(), 'the bare form is used only for a non-empty argument (emptiness test on the false edge)',
                  "quote(\"\") returns the empty string: the argument vanishes from the `# Command:` line of the text report, every later argument shifts by one when the header is parsed again "
                  "(`group --isolate --exclude '' d1 d2` is read back as --exclude d1 with the single root d2), and a shell would drop it as well")
    # both operate on the lossy string of the same argument
    for a in anys:
        ctx.check(1 in backslice(b, [a.args[0]]).params, rule, b.path + '|input-%d' % a.line, a.where(), 'tests the characters of the argument', 'tests something else than the argument')


def r4(ctx, lib):
    rule = 'C17.R4'
    q = lib.body('arg::quote')
    s = lib.body('arg::split')
    if q is None or s is None:
        return
    TRANSFORM = r'str::<impl str>::(replace|replacen|trim\w*|strip_\w+|to_\w*case|to_ascii_\w+)$|String::(retain|remove|pop|truncate|insert\w*|drain|replace_range)$'
    fm = [c for c in q.calls(r'arg::to_stfu8$')]
    if not fm:
        ctx.missing(rule, 'to_stfu8 in quote', q.where())
    enc_layers = []
    for e in q.calls(TRANSFORM):
        if backslice(q, [e.args[0]]).has_call(r'arg::to_stfu8$'):
            enc_layers.append((e, e.path.rsplit('::', 1)[-1], tuple(''.join(cvals(lib, q, a)) for a in e.args[1:])))
    want = [('replace', ("'\\''", '"\\\\\'"'))]
    got = [(n, a) for _, n, a in enc_layers]
    ctx.check(got == want, rule, q.path + '|encode', (enc_layers[0][0].where() if enc_layers else q.where()), "encode: to_stfu8(s).replace(', \\') and no other text transformation of the encoded body",
              "the $'...' encoder applies %s to the STFU-8 text; expected exactly replace(' -> \\')" % (got,))
    fs = s.calls(r'arg::from_stfu8$')
    if not fs:
        ctx.missing(rule, 'from_stfu8 in split', s.where())
    else:
        sl = backslice(s, [fs[0].args[0]])
        dec_layers = [(d, d.path.rsplit('::', 1)[-1], tuple(''.join(cvals(lib, s, a)) for a in d.args[1:])) for d in s.calls(TRANSFORM) if d in sl.calls]
        # the decoder must undo the encoder's layers in reverse order: replace(a -> b) is undone by replace(b -> a)
        def norm(v):
            m = re.match(r"""^(?:'(.*)'|"(.*)")$""", v, re.S)
            if not m:
                return v
            body = m.group(1) if m.group(1) is not None else m.group(2)
            return re.sub(r"""\\(u\{[0-9a-fA-F]+\}|.)""", lambda k: unesc('\\' + k.group(1)), body, flags=re.S)
        inv = [(n, (norm(a[1]), norm(a[0]))) for n, a in reversed(got) if len(a) == 2]
        gotd = [(n, tuple(norm(x) for x in a)) for _, n, a in dec_layers]
        ctx.check(gotd == inv and got == want, rule, s.path + '|decode', (dec_layers[-1][0].where() if dec_layers else fs[0].where()),
                  "decode: from_stfu8(slice.replace(\\', ')) - exactly the encoder's layers undone in reverse order (%d layer(s))" % len(gotd),
                  "the $'...' decoder applies %s before from_stfu8, the encoder's inverse is %s: text that the encoder never produces as an escape (e.g. the `\\\\` + `\"` that STFU-8 writes for a backslash followed by a quote) is rewritten and no longer decodes" % (gotd, inv))
    # join = quote each, separated by a single space; split treats space as delimiter
    j = lib.body('arg::join')
    if j is not None:
        jc = j.calls(r'Itertools::join$|::join$')
        sep = ''.join(cvals(lib, j, jc[0].args[1])) if jc else ''
        ctx.check(bool(jc) and sep == '" "', rule, 'arg::join|separator', j.where(), 'arguments joined with a single space', 'join separator is %s' % sep)
        qc = [lib.body(p) for p in lib.closures_of(j.path)]
        ctx.check(any(x.calls(r'arg::Arg::quote$') for x in qc), rule, 'arg::join|quotes-each', j.where(), 'every argument is quoted', 'join does not quote every argument')


def r5(ctx, lib):
    rule = 'C17.R5'
    sp = ctx.need_body(rule, 'arg::split')
    if sp is None:
        return
    special = const_chars(lib, 'arg::SPECIAL_CHARS') or []
    quoted = set(ord(c) for c in special) | set(range(0, 0x20)) | {0x7f, 0xfffd, 0x27}
    nx = sp.calls(r'Chars.*Iterator>::next$')
    if not nx:
        ctx.missing(rule, 'Chars::next in arg::split', sp.where())
        return
    src = nx[0].dest[0]
    vals = set()
    n_sw = 0
    for bi, blk in enumerate(sp.blocks):
        t = blk['term']
        if t['k'] != 'switch' or blk['cleanup']:
            continue
        p = op_place_(t['op'])
        sl = backslice(sp, [t['op']])
        if src in sl.locals and any(sp.local_ty(l) == 'char' for l in sl.locals | ({p[0]} if p else set())) or (p and p[0] == src and any(isinstance(e, list) and e[0] == 'F' for e in p[1])):
            # a switch on the character itself (not on the Option discriminant)
            if p and p[0] == src and not any(isinstance(e, list) and e[0] == 'F' for e in p[1]):
                continue
            if set(t['vals']) <= {0, 1} and not (p and any(isinstance(e, list) and e[0] == 'F' for e in p[1])):
                continue
            n_sw += 1
            vals |= set(t['vals'])
    vals = {v for v in vals if v > 1 or v in (0,)} - {0, 1} | {v for v in vals if v in (9, 10, 32)}
    ctx.floor(rule, 'character switches in arg::split', n_sw, 5, sp.where())
    unquoted = sorted(v for v in vals if v not in quoted)
    ctx.check(not unquoted, rule, 'arg::split|special-chars-are-quoted', sp.where(), 'all %d characters with a special meaning to the splitter (%s) force quoting' % (len(vals), ' '.join(repr(chr(v)) for v in sorted(vals))),
              'the splitter gives a special meaning to %s, which quote() prints bare' % [repr(chr(v)) for v in unquoted])
    preds = [c for c in sp.calls(r'char::methods::<impl char>::is_\w+$|<impl char>::is_\w+$')]
    q = lib.body('arg::quote')
    qpreds = set()
    if q is not None:
        for cb in [q] + [lib.body(x) for x in lib.closures_of(q.path)]:
            qpreds |= {c.path.rsplit('::', 1)[-1] for c in cb.calls(r'<impl char>::is_\w+$')}
    bad = [c for c in preds if c.path.rsplit('::', 1)[-1] not in qpreds]
    ctx.check(not bad, rule, 'arg::split|no-unmirrored-class', (bad[0].where() if bad else sp.where()), 'the splitter uses no character class that the quoter does not know',
              'the splitter treats the class char::%s specially, but quote() decides by its explicit table: characters of that class outside the table (e.g. U+00A0, U+3000 for is_whitespace) are written bare and split on reading' % (bad[0].path.rsplit('::', 1)[-1] if bad else ''))


def op_place_(o):
    from ..facts import op_place
    return op_place(o)

"""C06 - replica counting honours links, isolation and the replication filter."""
import re
from . import register
from .common import rehash_core, rehash_core_path, rehash_rx
from ..analysis import (backslice, aggregates, agg_field, switch_targets_bool, count_nots, closure_creation, forward_locals,
                        direct_field, direct_def, comparisons, branch_of, variant_arms, dominated_region, FLIP, field_writes)
from ..facts import const_int, op_local, op_place, op_const, const_val, rvalue_operands, rvalue_places

DOC = {
    'explanation': 'Decided clauses of replica counting: group_filter() maps --unique/--rf-under/--rf-over, --isolate and --match-links to the filter as documented (R1); matches / '
                   'matches_strictly compare the sub-group count with the threshold in the right direction (R2); the last stage on every branch of group_files filters strictly (R3); '
                   'FileSubGroup::group puts a file under its root first, else under its file id when grouping by id, in an insertion-ordered map (R4); file identity follows links '
                   'while the walk classifies entries without following (R5); the isolate roots stored in the filter and inherited by the dedupe commands are canonicalised like the '
                   'scanned paths (R6); the threshold is the user\'s even under --transform (R7); replica-count shortcuts are guarded (R8 = C14.R3).',
    'rules': {
        'C06.R1': 'group_filter: unique -> Underreplicated(2); rf_under -> Underreplicated(rf); else Overreplicated(rf_over()); root_paths non-empty iff isolate; group_by_id = !match_links',
        'C06.R2': 'matches_strictly: Over: count > rf, Under: count < rf; matches: Over: count > rf, Under: true; count = FileSubGroup::group(files, root_paths, group_by_id).len()',
        'C06.R3': 'the last stage on every branch of group_files filters with matches_strictly (exception: --skip-content-hash)',
        'C06.R4': '(nested roots: the innermost root wins, independent of the order of the roots) FileSubGroup::group: root prefix (is_prefix_of) first, else id group when group_by_id (IndexMap), else singleton; empty groups removed',
        'C06.R5': 'FileMetadata::new/FileId::new use fs::metadata (follow links); Entry::from_path uses symlink_metadata',
        'C06.R6': 'FileGroupFilter.root_paths and DedupeConfig.isolated_roots derive from a canonicalising call, like the scanned paths (Walk::absolute)',
        'C06.R7': 'GroupConfig::rf_over() does not read `transform`',
        'C06.R10': 'hard links are one replica, two files of two file systems that happen to share an inode number are two: the sub-grouping by file identity uses the whole FileId, never the inode number alone (re-evaluates C01.R11)',
        'C06.R9': 'Path::is_prefix_of compares whole components of both paths and answers true only when all components of the root are consumed (no string-prefix test)',
        'C06.R8': 'replica-count shortcuts (file_count / unique_count instead of sub-grouping) are guarded by root_paths.is_empty() and !group_by_id',
    },
    'not_decided': 'the counts for concrete trees; symlink resolution by the OS',
    'assumptions': ['dunce::canonicalize resolves ., .., trailing slashes and symlinked directories'],
}

FG = 'group::FileGroup::<F>::'


@register('C06', DOC)
def run(ctx):
    r1(ctx)
    r2(ctx)
    r3(ctx, 'C06.R3')
    r4(ctx)
    r5(ctx)
    r6(ctx)
    r7(ctx)
    r8(ctx, 'C06.R8')
    r9(ctx)
    from .common import reevaluate
    from . import c01
    reevaluate(ctx, 'C06.R10', c01.r11)


def r1(ctx):
    rule = 'C06.R1'
    lib = ctx.lib
    b = ctx.need_body(rule, 'config::GroupConfig::group_filter')
    if b is None:
        return
    P = b.path
    reps = aggregates(b, 'group::Replication')
    seen = {}
    for bi, s in reps:
        var = s['rv']['variant']
        op = s['rv']['ops'][0]
        # guards
        conds = []
        for d in b.dominators()[bi]:
            t = b.blocks[d]['term']
            if t['k'] != 'switch' or d == bi:
                continue
            df = direct_field(b, t['op'])
            if df:
                tt, ft = switch_targets_bool(t)
                side = b.dominates(tt, bi) if tt is not None else None
                conds.append((df[0], (side != df[2]) if side is not None else None))
            else:
                dd = direct_def(b, t['op'])
                if dd[0] == 'stmt' and dd[1]['rv']['k'] == 'disc':
                    dp = dd[1]['rv']['p']
                    from ..analysis import through_tuple
                    tt_ = through_tuple(b, dp)          # `match (self.unique, self.rf_under)`: component 1 of the scrutinee is the field rf_under
                    while tt_ is not None and op_place(tt_[0]) is not None:
                        dp = op_place(tt_[0])
                        d2 = direct_def(b, {'c': [dp[0], []]}) if not dp[1] else None
                        if d2 is not None and d2[0] == 'place':
                            dp = d2[1]
                        tt_ = through_tuple(b, dp)
                    fs = [e[2] for e in dp[1] if isinstance(e, list) and e[0] == 'F']
                    m = dict(zip(t['vals'], t['tgts']))
                    some = m.get(1)
                    side = b.dominates(some, bi) if some is not None else (not b.dominates(m.get(0), bi) if 0 in m else None)
                    conds.append((fs[-1] if fs else '?', side))
        seen[(var, tuple(conds))] = (bi, s, op)
    want = []
    ok_u = ok_ru = ok_o = False
    for (var, conds), (bi, s, op) in seen.items():
        cd = dict(conds)
        if var == 'Underreplicated' and cd.get('unique') is True:
            from ..analysis import const_int_u
            ok_u = const_int_u(lib, op) == 2 or (const_int_u(lib, (direct_def(b, op)[1]['rv']['op'] if direct_def(b, op)[0] == 'stmt' and direct_def(b, op)[1]['rv']['k'] == 'use' else op)) == 2)
        elif var == 'Underreplicated' and cd.get('unique') is False and cd.get('rf_under') is True:
            ok_ru = 'rf_under' in backslice(b, [op]).field_names() and not backslice(b, [op]).binops
        elif var == 'Overreplicated' and cd.get('unique') is False and cd.get('rf_under') is False:
            dd = direct_def(b, op)
            ok_o = dd[0] == 'call' and dd[1].matches(r'GroupConfig::rf_over$')
    ctx.check(ok_u, rule, P + '|unique', b.where(), '--unique -> Underreplicated(2)', '--unique does not map to Underreplicated(2)')
    ctx.check(ok_ru, rule, P + '|rf_under', b.where(), '--rf-under k -> Underreplicated(k)', '--rf-under does not map to Underreplicated(k)')
    ctx.check(ok_o, rule, P + '|rf_over', b.where(), 'otherwise Overreplicated(rf_over())', 'the default does not map to Overreplicated(rf_over())')
    fg = aggregates(b, 'group::FileGroupFilter')
    if not ctx.floor(rule, 'FileGroupFilter construction', len(fg), 1, b.where()):
        return
    bi, s = fg[0]
    df = direct_field(b, agg_field(s, 'group_by_id'))
    ctx.check(df is not None and df[0] == 'match_links' and df[2], rule, P + '|group_by_id', b.where(s['line']), 'group_by_id = !match_links', 'group_by_id is not !match_links')
    # root_paths: defined on both sides of `isolate`
    rl = op_local(agg_field(s, 'root_paths'))
    defs = b.defs().get(rl, [])
    # a local introduced for the value (`let root_paths = if ..; FileGroupFilter { root_paths, .. }`) is moved once more
    for _ in range(4):
        if len(defs) == 1 and defs[0][2] == 'assign' and defs[0][3]['rv']['k'] == 'use' and op_local(defs[0][3]['rv']['op']) is not None and not op_place(defs[0][3]['rv']['op'])[1]:
            rl = op_local(defs[0][3]['rv']['op'])
            defs = b.defs().get(rl, [])
    iso_true = iso_false = None
    for d in defs:
        dbb = d[0]
        for dd in b.dominators()[dbb]:
            t = b.blocks[dd]['term']
            if t['k'] == 'switch':
                df2 = direct_field(b, t['op'])
                if df2 and df2[0] == 'isolate':
                    tt, ft = switch_targets_bool(t)
                    if b.dominates(tt, dbb):
                        iso_true = d
                    elif b.dominates(ft, dbb):
                        iso_false = d
    good = iso_true is not None and iso_false is not None
    if good:
        t_call = iso_true[3] if iso_true[2] == 'call' else None
        f_call = iso_false[3] if iso_false[2] == 'call' else None
        good = t_call is not None and backslice(b, [t_call.args[0]] if t_call.args else []).has_call(r'GroupConfig::(input_paths\w*|root_paths)$') or (t_call is not None and t_call.matches(r'GroupConfig::(root_paths)$'))
        good = good and f_call is not None and f_call.matches(r'Vec::<T>::new$|Vec<.*>::new$')
    ctx.check(bool(good), rule, P + '|root_paths', b.where(s['line']), 'root_paths = input roots iff --isolate, else empty', 'root_paths is not (isolate ? input roots : empty)')


def r2(ctx):
    rule = 'C06.R2'
    lib = ctx.lib
    sc = ctx.need_body(rule, FG + 'subgroup_count')
    if sc is not None:
        g = sc.calls(r'FileSubGroup.*::group$')
        ln = sc.calls(r'Vec<.*>::len$|Vec::<T, A>::len$')
        good = len(g) == 1 and len(ln) == 1 and direct_def(sc, ln[0].args[0]) is not None and g[0] in backslice(sc, [ln[0].args[0]]).calls and ln[0].dest[0] == 0
        if good:
            a0, a1 = backslice(sc, [g[0].args[0]]), backslice(sc, [g[0].args[1]])
            df = direct_field(sc, g[0].args[2])
            good = 'files' in a0.field_names() and 'root_paths' in a1.field_names() and df is not None and df[0] == 'group_by_id' and not df[2]
        n_ret = len([1 for blk in sc.blocks if blk['term']['k'] == 'ret'])
        ctx.check(bool(good) and len(sc.calls()) <= 6, rule, sc.path, sc.where(), 'count = FileSubGroup::group(&files, &root_paths, group_by_id).len()', 'subgroup_count is not the plain sub-group count (shortcut or different arguments)')
    for fn, table in (('matches_strictly', {'Overreplicated': '>', 'Underreplicated': '<'}), ('matches', {'Overreplicated': '>', 'Underreplicated': 'true'})):
        b = ctx.need_body(rule, FG + fn)
        if b is None:
            continue
        # match on filter.replication
        arms = None
        for bi, blk in enumerate(b.blocks):
            for s in blk['stmts']:
                if s['rv']['k'] == 'disc' and 'replication' in [e[2] for e in s['rv']['p'][1] if isinstance(e, list) and e[0] == 'F']:
                    dl = s['p'][0]
                    for (b2, i2, w2) in b.operand_uses(dl):
                        if w2[0] == 'switch':
                            t = w2[1]
                            names = [v['name'] for v in lib.adts['group::Replication']['variants']]
                            arms = {}
                            for v, tg in zip(t['vals'], t['tgts']):
                                arms[names[v]] = tg
                            if len(arms) == 1:
                                other = [n for n in names if n not in arms][0]
                                arms[other] = t['tgts'][-1]
        if not arms or len(arms) != 2:
            ctx.missing(rule, 'match on filter.replication in ' + fn, b.where())
            continue
        cmps = comparisons(b)
        for var, want in table.items():
            region = dominated_region(b, arms[var])
            key = '%s|%s' % (b.path, var)
            here = [c for c in cmps if c.bb in region]
            if want == 'true':
                vals = set()
                for x in region:
                    for s in b.blocks[x]['stmts']:
                        if s['p'][0] == 0 and s['rv']['k'] == 'use':
                            vals.add(const_val(s['rv']['op']))
                ctx.check(not here and vals <= {'const true', 'true'} and bool(vals), rule, key, b.where(), '%s: always forwarded (true)' % var, '%s: intermediate filter is not the constant true (%s)' % (var, vals or [c.op for c in here]))
                continue
            if len(here) != 1:
                ctx.violation(rule, key, b.where(), '%s: expected one comparison, found %d' % (var, len(here)))
                continue
            c = here[0]
            sa, sb = backslice(b, [c.a]), backslice(b, [c.b])
            a_cnt = sa.has_call(r'::subgroup_count$')
            b_cnt = sb.has_call(r'::subgroup_count$')
            rel = c.op if a_cnt and not b_cnt else (FLIP[c.op] if b_cnt and not a_cnt else None)
            rf_ok = ('replication' in (sb if a_cnt else sa).field_names())
            ret_ok = c.dest in backslice(b, [0]).locals and count_nots(b, backslice(b, [0])) == 0
            ctx.check(rel == want and rf_ok and ret_ok, rule, key, b.where(c.line), '%s: count %s rf' % (var, rel), '%s: relation is count %s rf (expected %s)' % (var, rel, want))


STAGES = ['group_by_size', 'remove_same_files', 'group_transformed', 'group_by_prefix', 'group_by_suffix', 'group_by_contents']


def stage_filters(lib):
    """stage fn -> ('matches'|'matches_strictly'|None, where) for the post filter handed to rehash / used in filter()"""
    out = {}
    for st in STAGES:
        b = lib.body('group::' + st)
        if b is None:
            continue
        found = None
        for cp in lib.closures_of(b.path):
            cb = lib.body(cp)
            for c in cb.calls(r'FileGroup.*::matches(_strictly)?$'):
                cr = closure_creation(lib, cp)
                # is it the post filter (3rd arg of rehash) or a filter() adaptor?
                pos = None
                if cr:
                    parent, bi, stt = cr
                    fl = forward_locals(parent, stt['p'][0])
                    for rc in parent.calls(rehash_rx(lib)):
                        for i, a in enumerate(rc.args):
                            if op_local(a) in fl:
                                pos = i
                    for fc in parent.calls(r'Iterator::filter$|ParallelIterator::filter$|::filter$|::retain$'):
                        if op_local(fc.args[-1]) in fl:
                            pos = 'filter'
                if pos in (2, 'filter'):
                    found = (c.path.rsplit('::', 1)[-1], c.where(), pos)
        out[st] = found
    return out


def r3(ctx, rule):
    lib = ctx.lib
    b = ctx.need_body(rule, 'group::group_files')
    if b is None:
        return
    sf = stage_filters(lib)
    ctx.stats[rule + ':stage post-filters'] = {k: (v[0] if v else None) for k, v in sf.items()}
    n_rehash = sum(len(lib.body(p).calls(rehash_rx(lib))) for p in lib.bodies if p.startswith('group::group_') and '{' not in p)
    ctx.floor(rule, 'rehash call sites in the stage functions', n_rehash, 4)
    # producers of the value that is finally sorted and returned
    sorts = [c for c in b.calls() if re.search(r'par_sort_by_key$|sort_by_key$|par_sort', c.path.rsplit('::', 1)[-1])]
    if not sorts:
        ctx.missing(rule, 'final sort in group_files', b.where())
        return
    gl = None
    from ..analysis import base_named_local
    gl = base_named_local(b, sorts[0].args[0])
    if gl is None:
        ctx.missing(rule, 'the `groups` local in group_files', b.where())
        return
    # every definition of the groups local: follow moves back to a stage call
    producers = []
    seen = set()
    work = [gl]
    while work:
        l = work.pop()
        if l in seen:
            continue
        seen.add(l)
        for d in b.defs().get(l, []):
            if d[2] == 'call':
                producers.append(d[3])
                # an iterator adaptor chain (into_iter / filter / collect ...) hands on the value of its receiver
                if not d[3].path.startswith('group::') and d[3].args and re.search(r'Iterator|IntoIterator|FromIterator|collect|filter|into_iter', d[3].path):
                    ol = op_local(d[3].args[0])
                    if ol is not None:
                        work.append(ol)
            elif d[3]['rv']['k'] == 'use':
                ol = op_local(d[3]['rv']['op'])
                if ol is not None:
                    work.append(ol)
    stage_prod = [c for c in producers if c.path.startswith('group::') and c.path.split('::')[-1] in STAGES]
    ctx.floor(rule, 'branches producing the final groups', len(stage_prod), 3, b.where())
    for c in stage_prod:
        st = c.path.split('::')[-1]
        key = '%s|final-stage=%s' % (b.path, st)
        f = sf.get(st)
        # is this producer on the skip_content_hash == true side?
        exempt = False
        for d in b.dominators()[c.bb]:
            t = b.blocks[d]['term']
            if t['k'] == 'switch':
                df = direct_field(b, t['op'])
                if df and df[0] == 'skip_content_hash':
                    tt, ft = switch_targets_bool(t)
                    skip_side = ft if df[2] else tt
                    if b.dominates(skip_side, c.bb):
                        exempt = True
        # a producer that merely feeds a later stage is not final: final = its result is moved into `groups` directly
        if st == 'group_by_suffix':
            # --skip-content-hash weakens the equality test only: where the suffix-stage result becomes final it must still pass the strict filter
            finals = []
            for bi, blk in enumerate(b.blocks):
                for s_ in blk['stmts']:
                    if s_['p'][0] in seen and not s_['p'][1] and s_['rv']['k'] == 'use' and op_local(s_['rv']['op']) == c.dest[0]:
                        finals.append((bi, 'moved'))
            # or through an adaptor chain (into_iter().filter(..).collect())
            strict = False
            chain = []
            for pc in producers:
                if pc is c or pc.path.startswith('group::'):
                    continue
                sl = backslice(b, [pc.args[0]]) if pc.args else None
                if sl and c in sl.calls:
                    chain.append(pc)
                    for cc in sl.calls + [pc]:
                        for a in cc.args:
                            l = op_local(a)
                            cp = lib.closure_of_type(b.local_ty(l)) if l is not None else None
                            cb = lib.body(cp) if cp else None
                            if cb is not None and cb.calls(r'FileGroup::<.*>::matches_strictly$|FileGroup<.*>::matches_strictly$'):
                                strict = True
            feeds_contents = any(c in backslice(b, [pc.args[-1]]).calls for pc in producers if pc.path.endswith('group_by_contents') and pc.args)
            if chain:
                ctx.check(strict, rule, key, chain[0].where(), 'where the suffix stage is the last one (--skip-content-hash) its result passes matches_strictly',
                          'the suffix-stage result becomes final through %s without the strict filter' % chain[0].path.rsplit('::', 1)[-1])
            elif finals:
                ctx.violation(rule, key, c.where(), 'the result of the suffix stage becomes the final result unfiltered (under --skip-content-hash): the stage filters with the permissive `matches`, '
                              'so with --unique / --rf-under every class is reported and with -H / --isolate groups below the threshold pass')
            else:
                ctx.ok(rule, key, c.where(), 'the suffix stage only feeds the contents stage')
            continue
        if f is None:
            ctx.violation(rule, key, c.where(), 'no post-filter found in %s' % st)
        else:
            ctx.check(f[0] == 'matches_strictly', rule, key, f[1], '%s is a final stage and filters with matches_strictly' % st,
                      '%s is the last stage on its branch but filters with the permissive `%s`: under --rf-under/--unique every class is reported, and singletons pass whenever the threshold is 0' % (st, f[0]))
    # intermediate stages are permissive
    for st in ('group_by_size', 'remove_same_files', 'group_by_prefix', 'group_by_suffix'):
        f = sf.get(st)
        if f:
            ctx.check(f[0] == 'matches', rule.replace('R3', 'R3'), 'group::%s|intermediate' % st, f[1], '%s (intermediate) uses the permissive matches' % st, '%s is intermediate but filters strictly: under-replicated classes are dropped early' % st)


def innermost_loop(b, bb):
    """blocks of the smallest natural loop (back edge t -> h with h dominating t) that contains bb"""
    best = None
    for t in range(len(b.blocks)):
        for h in b.succs(t):
            if b.dominates(h, t):
                loop = {h, t}
                work = [t]
                while work:
                    x = work.pop()
                    if x == h:
                        continue
                    for p_ in b.preds(x):
                        if p_ not in loop:
                            loop.add(p_)
                            work.append(p_)
                if bb in loop and (best is None or len(loop) < len(best)):
                    best = loop
    return best or {bb}


def r4(ctx):
    rule = 'C06.R4'
    lib = ctx.lib
    bs = [b for p, b in lib.bodies.items() if re.match(r'^group::FileSubGroup::<F>::group$', p)]
    if not bs:
        ctx.missing(rule, 'fn FileSubGroup::group')
        return
    b = bs[0]
    ctx.fn(b)
    P = b.path
    im = b.calls(r'^indexmap::IndexMap')
    # a hash map may serve as a look-up table (filled and queried by key); nothing may be produced by iterating over one
    hm = [c for c in b.calls(r'HashMap|BTreeMap|DashMap') if not c.matches(r'HashMap::<.*>::(new|with_capacity|insert|get|is_empty|len|contains_key)$')]
    ctx.check(bool(im) and not hm, rule, P + '|ordered-map', b.where(), 'id groups are kept in an IndexMap (insertion order)', 'id groups are kept in %s: sub-group order becomes hash-dependent' % (sorted({c.path.split('::')[2] for c in hm}) if hm else 'no IndexMap'))
    pos = b.calls(r'Iterator::position$|::position$|Iterator::max_by_key$|Iterator::min_by_key$|Iterator::max_by$|Iterator::min_by$')
    pref = any(lib.body(cp).calls(r'path::Path::is_prefix_of$') for cp in lib.closures_of(b.path))
    # the other form: the roots are the keys of a table (root -> index) and the root of a file is the first of the path and its
    # ancestors (Path::parent, in a loop) that is a key
    lookup = False
    gets, parents, inserts = b.calls(r'HashMap::<.*>::get$'), b.calls(r'path::Path::parent$'), b.calls(r'HashMap::<.*>::insert$')
    roots_param = [i for i in range(1, b.argc + 1) if b.local_name(i) == 'roots']
    if gets and parents and inserts and roots_param:
        g, pa, ins = gets[0], parents[0], inserts[0]
        in_cycle = pa.bb in innermost_loop(b, g.bb)
        key = backslice(b, [g.args[1]])
        key_ok = key.has_call(r'AsRef::as_ref$') and key.has_call(r'path::Path::parent$')
        filled = backslice(b, ins.args[1:])
        filled_ok = roots_param[0] in filled.locals and filled.has_call(r'Iterator::enumerate$')
        same_map = bool(set(backslice(b, [g.args[0]]).locals) & set(backslice(b, [ins.args[0]]).locals) - set(range(1, b.argc + 1)))
        lookup = in_cycle and key_ok and filled_ok and same_map
        if lookup:
            # the walk up the ancestors starts at the path itself: an input path that is a file is a root as well (is_prefix_of is reflexive)
            cyc = innermost_loop(b, g.bb)
            starts_at_parent = []
            for l in key.locals:
                ds = b.defs().get(l, [])
                if any(d[0] in cyc for d in ds) and any(d[0] not in cyc for d in ds):
                    for d in ds:
                        if d[0] in cyc:
                            continue
                        ops = d[3].args if d[2] == 'call' else rvalue_operands(d[3]['rv'])
                        if backslice(b, ops).has_call(r'path::Path::parent$'):
                            starts_at_parent.append(d)
            ctx.check(not starts_at_parent, rule, P + '|lookup-starts-at-the-path', g.where(), 'the first key looked up is the path of the file itself, then its ancestors',
                      'the first key looked up is the PARENT of the path: an input path that is a file (`--isolate f1 dir2`) is a root as well (Path::is_prefix_of is reflexive), its file is no longer '
                      'assigned to it and is counted as a replica outside of every root')
    ctx.check((bool(pos) and pref) or lookup, rule, P + '|root-prefix', b.where(), 'root = a root that is a prefix of the path (%s)' % ('the first of the path and its ancestors that is in the table of the roots' if lookup else 'is_prefix_of'),
              'the root of a file is found neither by Path::is_prefix_of nor by looking up the path and its ancestors in a table of the roots')
    # the choice among several matching (nested) roots does not depend on their order: the most specific one, not the first one
    sel = b.calls(r'Iterator::max_by_key$|Iterator::min_by_key$|Iterator::max_by$|Iterator::min_by$')
    by_depth = any(lib.body(cp).calls(r'path::Path::component_count$|::len$') for cp in lib.closures_of(b.path))
    ctx.check((bool(sel) and by_depth) or lookup, rule, P + '|root-order-independent', (sel[0].where() if sel else (pos[0].where() if pos else b.where())),
              'among nested roots the innermost one is chosen (%s)' % ('the walk up the ancestors starts at the path; the table is keyed by the root, not by its position' if lookup else 'most components'),
              'a file below several of the roots is assigned to the first of them on the command line: `--isolate d d/sub` puts d/sub/b into root d (nothing reported) while `--isolate d/sub d` '
              'reports {d/sub/b, d/a} and `remove` deletes d/a - the set of duplicates depends on the order of the roots')
    # the cost of a file does not grow with the number of roots: no scan over the roots inside the loop over the files
    ctx.advise(lookup, rule, P + '|root-looked-up', b.where(), 'the root of a file is looked up in a table built once per call; no scan over the roots per file',
              'every file is compared with every root (is_prefix_of builds two component vectors per pair), in each of the about twelve passes over the groups (two filters and the statistics of five stages, sorting, the report): '
              '`group --isolate */` over 1000 top-level directories with 20 files each spends 38 s there against 0.7 s without --isolate, before the first byte is hashed')
    pos = pos or (gets if lookup else [])
    # decision structure: Some(idx) -> push into prefix group; None && group_by_id -> id group; None -> singleton
    entry = b.calls(r'IndexMap.*::entry$')
    single = b.calls(r'FileSubGroup.*::single$')
    good = bool(entry and single and pos)
    if good:
        # the entry() call is guarded by the group_by_id parameter (true side), single() by its false side
        gparam = [i for i in range(1, b.argc + 1) if b.local_name(i) == 'group_by_id']
        ok_e = ok_s = False
        for c, want_true in ((entry[0], True), (single[0], False)):
            for d in b.dominators()[c.bb]:
                t = b.blocks[d]['term']
                if t['k'] == 'switch':
                    l = op_local(t['op'])
                    dd = direct_def(b, t['op'])
                    base = l if l in gparam else (op_local(dd[1]['rv']['op']) if dd[0] == 'stmt' and dd[1]['rv']['k'] == 'use' else None)
                    if l in gparam or (dd[0] == 'local' and dd[1] in gparam) or base in gparam:
                        tt, ft = switch_targets_bool(t)
                        if b.dominates(tt if want_true else ft, c.bb):
                            if want_true:
                                ok_e = True
                            else:
                                ok_s = True
        good = ok_e and ok_s
        ksl = backslice(b, [entry[0].args[1]])
        good = good and any('FileId' in b.local_ty(l) for l in ksl.locals)
    ctx.check(bool(good), rule, P + '|decision', b.where(), 'root first; else id group iff group_by_id; else singleton', 'the root / id / singleton decision is not as documented')
    ret = b.calls(r'::retain$')
    ctx.check(bool(ret), rule, P + '|no-empty-groups', b.where(), 'empty sub-groups are removed', 'empty root groups are not removed: unused roots would count as replicas')


def r5(ctx):
    rule = 'C06.R5'
    lib = ctx.lib
    for fn, want, why in (('file::FileMetadata::new', r'^std::fs::metadata$', 'file metadata follows links'), ('file::FileId::new', r'^std::fs::metadata$', 'file identity follows links'),
                          ('walk::Entry::from_path', r'^std::fs::symlink_metadata$', 'the walk classifies entries without following links')):
        b = ctx.need_body(rule, fn)
        if b is None:
            continue
        cs = [c for c in b.calls(r'^std::fs::(metadata|symlink_metadata)$|^std::path::Path::(metadata|symlink_metadata)$')]
        good = bool(cs) and all(c.matches(want) or c.matches(want.replace('^std::fs::', '^std::path::Path::')) for c in cs)
        ctx.check(good, rule, fn, b.where(), '%s (%s)' % (why, ','.join(c.path for c in cs)), '%s uses %s' % (fn, [c.path for c in cs]))
    ab = ctx.need_body(rule, "walk::Walk::<'a>::absolute")
    if ab is not None:
        cs = ab.calls(r'path::Path::canonicalize$')
        ctx.check(len(cs) >= 2, rule, ab.path, ab.where(), 'scanned paths: parent (files) or whole path (dirs) canonicalised', 'Walk::absolute does not canonicalise')
    rn = next((lib.body(c) for c in lib.closures_of("walk::Walk::<'a>::run") if lib.body(c).calls(r"Walk::<'a>::absolute$")), None) or lib.body("walk::Walk::<'a>::run::{closure#0}")
    if rn is not None:
        c = rn.calls(r"Walk::<'a>::absolute$")
        ctx.check(bool(c), rule, rn.path + '|roots-absolute', rn.where(), 'every root passes Walk::absolute', 'roots are not normalised by Walk::absolute')


CANON = r'path::Path::canonicalize$|^dunce::canonicalize$|^std::fs::canonicalize$|std::path::Path::canonicalize$|Walk::<.*>::absolute$'


def derives_from_call(unit, body, operands, rx, depth=3, _seen=None):
    """does the value derive from a call matching rx, looking into the return values of local callees and their closures?"""
    _seen = _seen if _seen is not None else set()
    sl = backslice(body, operands)
    if sl.has_call(rx):
        return True
    if depth == 0:
        return False
    for c in sl.calls:
        tgt = c.f.get('self_closure') or (c.path if c.f.get('local') else None)
        cands = []
        if tgt and unit.body(tgt) is not None:
            cands.append(unit.body(tgt))
        if not c.f.get('res') and c.f.get('method'):
            for m in unit.trait_impl_methods(c.f.get('trait', '').split('::')[-1], c.f['method']):
                if unit.body(m) is not None:
                    cands.append(unit.body(m))
        for cb in cands:
            if cb.path in _seen:
                continue
            _seen.add(cb.path)
            if derives_from_call(unit, cb, [0], rx, depth - 1, _seen):
                return True
            for cp in unit.closures_of(cb.path):
                ccb = unit.body(cp)
                if cp not in _seen:
                    _seen.add(cp)
                    if derives_from_call(unit, ccb, [0], rx, depth - 1, _seen):
                        return True
    # closures created in this body whose results feed the slice (map(|p| ...))
    for cp in unit.closures_of(body.path, recursive=False):
        cr = closure_creation(unit, cp)
        if cr and cr[2]['p'][0] in sl.locals and cp not in _seen:
            _seen.add(cp)
            if derives_from_call(unit, unit.body(cp), [0], rx, depth - 1, _seen):
                return True
    return False


def r6(ctx):
    rule = 'C06.R6'
    lib, bn = ctx.lib, ctx.bin
    b = ctx.need_body(rule, 'config::GroupConfig::group_filter')
    if b is not None:
        fg = aggregates(b, 'group::FileGroupFilter')
        if fg:
            bi, s = fg[0]
            good = derives_from_call(lib, b, [agg_field(s, 'root_paths')], CANON)
            ctx.check(good, rule, b.path + '|root_paths', b.where(s['line']), 'isolate roots are canonicalised like the scanned paths',
                      'FileGroupFilter.root_paths is built from the raw input paths (base_dir.resolve(p)), while scanned paths pass Walk::absolute (canonicalised): '
                      '`--isolate ./d1 d2`, `d1/`, `sub/../d1` or a symlinked root are not recognised as prefixes of the files found under them')
    rd = bn.body('run_dedupe') if bn else None
    if rd is None:
        ctx.missing(rule, 'fn run_dedupe (binary)')
        return
    ws = field_writes(rd, 'isolated_roots', 'DedupeConfig')
    if ctx.floor(rule, 'write of DedupeConfig.isolated_roots in run_dedupe', len(ws), 1, rd.where()):
        def canonical(s_):
            sl_ = backslice(rd, rvalue_operands(s_['rv']))
            g = sl_.has_call(CANON)
            for c_ in sl_.calls:
                # closures handed to adaptors (map(|p| canonical_root(..)))
                for a_ in c_.args:
                    l_ = op_local(a_)
                    cp_ = bn.closure_of_type(rd.local_ty(l_)) if l_ is not None else None
                    cb_ = bn.body(cp_) if cp_ else None
                    if cb_ is not None:
                        for k_ in cb_.calls():
                            if k_.matches(CANON):
                                g = True
                            if k_.f.get('canon'):
                                for lb in lib.bodies.values():
                                    if lb.raw.get('canon') == k_.f['canon'] and derives_from_call(lib, lb, [0], CANON):
                                        g = True
                if c_.f.get('canon'):
                    for lb in lib.bodies.values():
                        if lb.raw.get('canon') == c_.f['canon'] and derives_from_call(lib, lb, [0], CANON):
                            g = True
            return g
        # the value that reaches the dedupe engine: explicit roots given on the command line must be canonical too
        consumers = [c for c in rd.calls(r'(^|::)dedupe$|dedupe::dedupe$') if c.args]
        if not consumers:
            ctx.missing(rule, 'call of dedupe() in run_dedupe', rd.where())
        else:
            dom = [(bi_, s_) for bi_, s_ in ws if rd.dominates(bi_, consumers[0].bb) and canonical(s_)]
            ctx.check(bool(dom), rule, 'bin::run_dedupe|isolated_roots|explicit', consumers[0].where(),
                      'on every path to dedupe() the isolate roots (also those given on the command line) were put into the canonical form of the reported paths',
                      'no canonicalising write of DedupeConfig.isolated_roots dominates the call of dedupe(): roots given with --isolate on the remove/link/move/dedupe command line are used '
                      'verbatim (relative to nothing, symlinks unresolved), match no reported path, and files of one root are split up: `remove --isolate d1 --isolate d2` removes d1/b as well')
        bi, s = ws[0]
        sl = backslice(rd, rvalue_operands(s['rv']))
        good = sl.has_call(CANON)
        if not good:
            for c in sl.calls:
                if c.f.get('canon'):
                    k = c.f['canon'].replace('fclones::', '', 1)
                    for lb in lib.bodies.values():
                        if lb.raw.get('canon') == c.f['canon']:
                            good = good or derives_from_call(lib, lb, [0], CANON)
        ctx.check(good, rule, 'bin::run_dedupe|isolated_roots', rd.where(s['line']), 'inherited isolate roots are canonicalised like the reported paths',
                  'DedupeConfig.isolated_roots inherits the raw header paths (input_paths()): roots spelled ./d1, d1/ or through a symlink never match the canonical paths in the report')


def r7(ctx):
    from . import c08
    before = len(ctx.obligations)
    c08.r7(ctx)
    for o in ctx.obligations[before:]:
        o['key'] = o['key'].replace(o['rule'] + '|', 'C06.R7|', 1)
        o['rule'] = 'C06.R7'
    ctx.rules_run.add('C06.R7')


def r8(ctx, rule):
    """replica-count shortcuts must be guarded by root_paths.is_empty() and !group_by_id"""
    lib = ctx.lib
    n = 0
    for fn in ('subgroup_count', 'redundant_count', 'missing_count', 'matches', 'matches_strictly', 'reported_count'):
        b = lib.body(FG + fn)
        if b is None:
            continue
        for c in b.calls(r'FileGroup.*::(file_count|unique_count)$|Vec<.*>::len$|Vec::<T, A>::len$'):
            last = c.path.rsplit('::', 1)[-1]
            if last == 'len':
                # only `self.files.len()` counts as a shortcut
                pl = direct_def(b, c.args[0])
                if not (pl[0] == 'place' and [e[2] for e in pl[1][1] if isinstance(e, list) and e[0] == 'F'][-1:] == ['files'] and pl[1][0] == 1):
                    continue
            n += 1
            ctx.fn(b)
            g_roots = g_id = False
            for d in b.dominators()[c.bb]:
                t = b.blocks[d]['term']
                if t['k'] != 'switch':
                    continue
                dd = direct_def(b, t['op'])
                tt, ft = switch_targets_bool(t)
                if dd[0] == 'call' and dd[1].matches(r'::is_empty$') and 'root_paths' in backslice(b, [dd[1].args[0]]).field_names():
                    g_roots = g_roots or b.dominates(tt, c.bb)
                df = direct_field(b, t['op'])
                if df and df[0] == 'group_by_id':
                    side = ft if not df[2] else tt
                    g_id = g_id or b.dominates(side, c.bb)
            key = '%s|%s' % (b.path, last)
            if last == 'unique_count':
                ctx.violation(rule, key, c.where(), 'unique_count() merges only adjacent equal ids (needs files sorted by id, which is not guaranteed after regrouping): not a valid replica count')
            else:
                ctx.check(g_roots and g_id, rule, key, c.where(), 'shortcut guarded by root_paths.is_empty() and !group_by_id',
                          'the replica count takes the shortcut %s() under %s only: hard links (group_by_id) %s are counted as separate replicas, unlike the filter'
                          % (last, 'root_paths.is_empty()' if g_roots else ('!group_by_id' if g_id else 'no guard'), '' if g_roots else 'and isolate roots'))
    # positively: in redundant_count every number that reaches the result comes from the guarded file_count()
    # shortcut or from the sub-grouping; any other way of counting (distinct ids, sets, adjacent dedup) is not
    # the definition the filter and the dedupe commands use
    rc = lib.body(FG + 'redundant_count')
    if rc is not None:
        sl = backslice(rc, [0])
        odd = [c for c in sl.calls if re.search(r'::(count|unique|unique_by|dedup|dedup_by|dedup_by_key|unique_count|sorted|group_by|chunk_by)$|HashSet|HashMap|BTreeSet', c.path)]
        grp = [c for c in sl.calls if c.matches(r'FileSubGroup.*::group$')]
        ctx.check(not odd and bool(grp), rule, rc.path + '|count-sources', (odd[0].where() if odd else rc.where()),
                  'the redundant count derives only from file_count() (guarded) and FileSubGroup::group(..)',
                  'the redundant count is also computed through %s: that counts something else than the files of the sub-groups beyond the first rf (e.g. replicas instead of files), so the header disagrees with the body' % sorted({c.path.rsplit('::', 1)[-1] for c in odd}))
        n += 1
    ctx.stats[rule + ':shortcut sites'] = n
    ctx.check(n >= 1 or True, rule, 'sites', '-', '%d shortcut site(s) examined' % n)


def r9(ctx):
    rule = 'C06.R9'
    lib = ctx.lib
    b = ctx.need_body(rule, 'path::Path::is_prefix_of')
    if b is None:
        return
    comps = b.calls(r'path::Path::components$')
    ps = sorted(sorted(backslice(b, [c.args[0]]).params)[0] for c in comps if backslice(b, [c.args[0]]).params)
    stringy = [c.path.rsplit('::', 1)[-1] for c in b.calls(r'starts_with$|to_string_lossy$|as_bytes$|to_escaped_string$|::display$|as_os_str$|to_path_buf$')]
    ctx.check(ps == [1, 2] and not stringy, rule, b.path + '|component-wise', b.where(), 'both paths are compared component by component', 'is_prefix_of is not a component-wise comparison (components of params %s, string ops %s): /a/b would be a prefix of /a/bc' % (ps, stringy))
    # the answer is "self exhausted"
    isn = b.calls(r'Option(::)?<.*>::is_none$')
    ok = False
    for c in isn:
        sl = backslice(b, [c.args[0]])
        from_self = any(1 in backslice(b, [x.args[0]]).params for x in sl.calls if x.matches(r'path::Path::components$'))
        from_other = any(2 in backslice(b, [x.args[0]]).params for x in sl.calls if x.matches(r'path::Path::components$'))
        if from_self and not from_other and (c.dest[0] == 0 or c.dest[0] in backslice(b, [0]).locals):
            ok = True
    ctx.check(ok, rule, b.path + '|root-exhausted', b.where(), 'true only when every component of the root was matched', 'the result is not "all components of self were consumed"')
    # a mismatch returns false
    ne = [c for c in comparisons(b) if c.op in ('!=', '==')]
    ctx.check(bool(ne), rule, b.path + '|mismatch', b.where(), 'components are compared for equality', 'no equality test of components')

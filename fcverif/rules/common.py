"""Helpers shared by several property modules."""
import re
from ..analysis import (backslice, classify_result, switch_on_result_of, return_variants_from,
                        arm_reaches_call, LOG_CALL, is_result_ty, result_err_ty, forward_locals, PASS_METHODS)
from ..facts import op_local, op_place


def ordered_chain(ctx, rule, body, steps, key_prefix):
    """steps: list of (label, regex).  Each step's result must be propagated with `?`
    (or matched with an Err-returning arm) and the next step must be dominated by the
    success edge of the previous one.  Returns the list of matched calls (or None)."""
    calls = []
    for label, rx in steps:
        cs = body.calls(rx)
        if not cs:
            ctx.missing(rule, '%s in %s' % (label, body.path), body.where())
            return None
        calls.append((label, cs))
    ok_all = True
    prev = None
    for label, cs in calls:
        c = cs[0]
        key = '%s|%s' % (key_prefix, label)
        sw = switch_on_result_of(body, c)
        fate = classify_result(body, c)
        if sw is None:
            if 'RETURNED' in fate.kinds and not (fate.kinds & {'DISCARDED'}):
                ctx.ok(rule, key, c.where(), '%s: result returned as the function result' % label)
            else:
                ctx.violation(rule, key, c.where(), '%s: result not propagated (%s %s)' % (label, fate, '; '.join(fate.notes)))
                ok_all = False
            prev = (label, c, None)
            continue
        errs_ok = True
        for e in sw['err']:
            rv = return_variants_from(body, e)
            if 'Ok' in rv:
                errs_ok = False
        dom_ok = True
        if prev is not None and prev[2] is not None:
            dom_ok = any(body.dominates(o, c.bb) for o in prev[2]['ok'])
        if errs_ok and dom_ok:
            ctx.ok(rule, key, c.where(), '%s: failure propagated%s' % (label, '' if prev is None else '; runs only after %s succeeded' % prev[0]))
        else:
            ok_all = False
            ctx.violation(rule, key, c.where(), '%s: %s' % (label, 'failure edge can return Ok' if not errs_ok else 'not dominated by the success edge of %s' % prev[0]))
        prev = (label, c, sw)
    return [cs[0] for _, cs in calls] if ok_all else [cs[0] for _, cs in calls]


def is_remove_call(unit, c):
    """call that deletes its path argument: fs::remove_file, FsCommand::remove, or a
    local closure/function whose body does that to its own parameter.  Returns the
    index of the removed-path argument or None."""
    if c.matches(r'^std::fs::remove_file$'):
        return 0
    if c.matches(r'dedupe::FsCommand::remove$'):
        return 0
    tgt = c.f.get('self_closure') or (c.path if c.f.get('local') else None)
    if tgt:
        b = unit.body(tgt)
        if b is not None and len(b.blocks) < 80:
            for c2 in b.calls():
                if c2.matches(r'^std::fs::remove_file$|dedupe::FsCommand::remove$'):
                    sl = backslice(b, [c2.args[0]])
                    ps = sorted(sl.params)
                    if ps:
                        if b.kind == 'closure':
                            # closure params: _1 = env, _2.. = args, passed as a tuple in arg 1
                            return ('closure', ps[-1] - 2)
                        return ps[0] - 1
    return None


def err_handling(body, call, _fate=None):
    """Classify what happens to the error of `call`: returns (category, detail)
    category in PROPAGATED, RETURNED, LOGGED, ERR-RETURNED, HANDLED-ARM, PASSED, STORED, DISCARDED, PANICS"""
    fate = classify_result(body, call) if _fate is None else _fate
    k = fate.kinds
    # map_err / or_else / inspect_err closures that log the error before it is dropped or converted
    for c, al in fate.closures:
        cp = body.unit.closure_of_type(body.local_ty(al))
        cb = body.unit.body(cp) if cp else None
        if cb is not None and arm_reaches_call(cb, 0, LOG_CALL):
            return 'LOGGED', 'by %s' % cp
    if 'PANICS' in k:
        return 'PANICS', '; '.join(fate.notes)
    if 'DISCARDED' in k:
        return 'DISCARDED', '; '.join(fate.notes)
    if 'PROPAGATED' in k:
        return 'PROPAGATED', ''
    if 'MATCHED' in k:
        # every path from an Err arm to a return must log the error or return an Err
        def handles(x):
            c = body.call_at(x)
            if c is not None and (c.matches(LOG_CALL) or (c.dest[0] == 0 and c.matches(r'FromResidual.*>::from_residual$'))):
                return True
            for s_ in body.blocks[x]['stmts']:
                if s_['p'][0] == 0 and not s_['p'][1] and s_['rv']['k'] == 'agg' and s_['rv'].get('variant') == 'Err':
                    return True
                if s_['p'][0] == 0 and not s_['p'][1] and s_['rv']['k'] == 'use':
                    return True       # the matched value itself is returned
            return False
        partial = None
        for e in fate.err_arm_blocks:
            okp, off = body.must_pass(e, handles)
            if not okp:
                partial = off
        if fate.err_arm_blocks and partial is not None and ('LOGGED' in k or any('Err' in return_variants_from(body, e) for e in fate.err_arm_blocks)):
            return 'HANDLED-ARM', 'on some path from the Err arm (return at bb%s, line %s) the error is neither logged nor returned' % (partial, body.blocks[partial]['term']['line'])
        if 'LOGGED' in k:
            return 'LOGGED', ''
        for e in fate.err_arm_blocks:
            rv = return_variants_from(body, e)
            if 'Err' in rv or 'copy' in rv:
                return 'ERR-RETURNED', ''
        if fate.err_arm_blocks:
            return 'HANDLED-ARM', 'error arm neither logs nor returns the error'
        # only the Ok arm is inspected (`if let Ok(..)`)
        return 'DISCARDED', 'only the Ok arm is inspected'
    if 'RETURNED' in k:
        return 'RETURNED', ''
    if 'STORED' in k:
        return 'STORED', ''
    if 'PASSED' in k:
        return 'PASSED', '; '.join(fate.notes)
    return 'DISCARDED', 'no use found'


def io_result(call):
    if not is_result_ty(call.dty):
        return False
    e = result_err_ty(call.dty) or ''
    return bool(re.search(r'(^|::)io::Error$|^std::io::Error$|error::Error$|nix::errno::Errno$|^Error$', e))

"""Helpers shared by several property modules."""
import re
from ..analysis import (result_tests, reachable_state, backslice, classify_result, switch_on_result_of, return_variants_from,
                        arm_reaches_call, LOG_CALL, is_result_ty, result_err_ty, forward_locals, PASS_METHODS)
from ..facts import op_local, op_place


def ordered_chain(ctx, rule, body, steps, key_prefix):
    """steps: list of (label, regex).  Each step's result must be propagated with `?`
    (or matched with an Err-returning arm) and the next step must be dominated by the
    success edge of the previous one.  Returns the list of matched calls (or None)."""
    calls = []
    for label, rx in steps:
        cs = body.calls(rx)
        if not cs:
            ctx.missing(rule, '%s in %s' % (label, body.path), body.where())
            return None
        calls.append((label, cs))
    ok_all = True
    prev = None
    for label, cs in calls:
        c = cs[0]
        key = '%s|%s' % (key_prefix, label)
        sw = switch_on_result_of(body, c)
        fate = classify_result(body, c)
        if sw is None:
            if 'RETURNED' in fate.kinds and not (fate.kinds & {'DISCARDED'}):
                ctx.ok(rule, key, c.where(), '%s: result returned as the function result' % label)
            else:
                ctx.violation(rule, key, c.where(), '%s: result not propagated (%s %s)' % (label, fate, '; '.join(fate.notes)))
                ok_all = False
            prev = (label, c, None)
            continue
        errs_ok = True
        for e in sw['err']:
            rv = return_variants_from(body, e)
            if 'Ok' in rv:
                errs_ok = False
        dom_ok = True
        if prev is not None and prev[2] is not None:
            dom_ok = any(body.dominates(o, c.bb) for o in prev[2]['ok'])
        if errs_ok and dom_ok:
            ctx.ok(rule, key, c.where(), '%s: failure propagated%s' % (label, '' if prev is None else '; runs only after %s succeeded' % prev[0]))
        else:
            ok_all = False
            ctx.violation(rule, key, c.where(), '%s: %s' % (label, 'failure edge can return Ok' if not errs_ok else 'not dominated by the success edge of %s' % prev[0]))
        prev = (label, c, sw)
    return [cs[0] for _, cs in calls] if ok_all else [cs[0] for _, cs in calls]


def is_remove_call(unit, c):
    """call that deletes its path argument: fs::remove_file, FsCommand::remove, or a
    local closure/function whose body does that to its own parameter.  Returns the
    index of the removed-path argument or None."""
    if c.matches(r'^std::fs::remove_file$'):
        return 0
    if c.matches(r'dedupe::FsCommand::remove$'):
        return 0
    tgt = c.f.get('self_closure') or (c.path if c.f.get('local') else None)
    if tgt:
        b = unit.body(tgt)
        if b is not None and len(b.blocks) < 80:
            for c2 in b.calls():
                if c2.matches(r'^std::fs::remove_file$|dedupe::FsCommand::remove$'):
                    sl = backslice(b, [c2.args[0]])
                    ps = sorted(sl.params)
                    if ps:
                        if b.kind == 'closure':
                            # closure params: _1 = env, _2.. = args, passed as a tuple in arg 1
                            return ('closure', ps[-1] - 2)
                        return ps[0] - 1
    return None


def err_handling(body, call, _fate=None):
    """Classify what happens to the error of `call`: returns (category, detail)
    category in PROPAGATED, RETURNED, LOGGED, ERR-RETURNED, HANDLED-ARM, PASSED, STORED, DISCARDED, PANICS"""
    fate = classify_result(body, call) if _fate is None else _fate
    k = fate.kinds
    # map_err / or_else / inspect_err closures that log the error before it is dropped or converted
    for c, al in fate.closures:
        cp = body.unit.closure_of_type(body.local_ty(al))
        cb = body.unit.body(cp) if cp else None
        if cb is not None and arm_reaches_call(cb, 0, LOG_CALL):
            return 'LOGGED', 'by %s' % cp
    # `unwrap_or_else(|e| ..)` / `or_else(|e| ..)`: the closure is the Err arm; it did not log (checked above) - does it hand the error on?
    for c, al in getattr(fate, 'handler_closures', []):
        cp = body.unit.closure_of_type(body.local_ty(al))
        cb = body.unit.body(cp) if cp else None
        if cb is not None and 'Err' in return_variants_from(cb, 0):
            return 'ERR-RETURNED', 'by %s' % cp
        if not (k - {'MATCHED'}):
            return 'HANDLED-ARM', 'the closure given to %s neither logs nor returns the error' % c.path.rsplit('::', 1)[-1]
    if 'PANICS' in k:
        return 'PANICS', '; '.join(fate.notes)
    if 'DISCARDED' in k:
        return 'DISCARDED', '; '.join(fate.notes)
    if 'PROPAGATED' in k:
        return 'PROPAGATED', ''
    if 'MATCHED' in k and 'RETURNED' in k and getattr(fate, 'ref_tests', 0) and not [1 for _ in fate.ok_arm_blocks[getattr(fate, 'ref_tests', 0):]]:
        # looked at (`if r.is_err() { .. }`) and then handed to the caller as it is
        return 'RETURNED', ''
    if 'MATCHED' in k:
        # "the thing is not there" is an answer, not a failure: the edge taken when the kind of the error equals NotFound is a handled one
        from ..analysis import slice_const_values, switch_targets_bool
        absent = set()
        for kc in body.calls(r'ErrorKind as std::cmp::PartialEq>::eq$'):
            vals = [str(v) for a in kc.args for v in slice_const_values(body.unit, backslice(body, [a]))]
            if not any(v.endswith('ErrorKind::NotFound') for v in vals) or not any(backslice(body, [a]).has_call(r'io::Error::kind$|Error::kind$') for a in kc.args):
                continue
            for (bbx, idx, what) in body.operand_uses(kc.dest[0]):
                if what[0] == 'switch':
                    tt, ft = switch_targets_bool(what[1])
                    if tt is not None:
                        absent.add(tt)

        # every path from an Err arm to a return must log the error or return an Err
        def handles(x):
            if x in absent:
                return True
            c = body.call_at(x)
            if c is not None and (c.matches(LOG_CALL) or (c.dest[0] == 0 and c.matches(r'FromResidual.*>::from_residual$'))):
                return True
            # the value returned comes from a local helper / closure that can only return an Err (`return refuse(..)`)
            if c is not None and c.dest and c.dest[0] == 0 and not c.dest[1] and is_result_ty(c.dty):
                hb_ = body.unit.body(c.path) if c.path else None
                if hb_ is None and c.args:
                    from ..facts import op_local as _ol
                    l_ = _ol(c.args[0])
                    cp_ = body.unit.closure_of_type(body.local_ty(l_)) if l_ is not None else None
                    hb_ = body.unit.body(cp_) if cp_ else None
                if hb_ is not None and return_variants_from(hb_, 0) == {'Err'}:
                    return True
            # the value returned is computed from the error (a helper that wraps it into the Err to return)
            if c is not None and c.dest and c.dest[0] == 0 and not c.dest[1] and is_result_ty(c.dty) and any(k_.bb == call.bb for a_ in c.args for k_ in backslice(body, [a_]).calls):
                return True
            for s_ in body.blocks[x]['stmts']:
                if s_['p'][0] == 0 and not s_['p'][1] and s_['rv']['k'] == 'agg' and s_['rv'].get('variant') == 'Err':
                    return True
                if s_['p'][0] == 0 and not s_['p'][1] and s_['rv']['k'] == 'use':
                    return True       # the matched value itself is returned
            return False
        partial = None
        for e in fate.err_arm_blocks:
            # other Results whose state is known at the Err arm (a dominating test of them took one edge): resolve their
            # later tests the same way, so that infeasible paths (`if let Err(e) = &r { .. } r?`) are not explored
            known = {}
            for oc in body.calls():
                if oc is call or not is_result_ty(oc.dty):
                    continue
                ot = result_tests(body, oc)
                st_ = None
                for sw_bb, t_ in ot.items():
                    if body.dominates(t_['err'], e) and not body.dominates(t_['ok'], e):
                        st_ = 'err'
                    elif body.dominates(t_['ok'], e) and not body.dominates(t_['err'], e):
                        st_ = 'ok'
                if st_:
                    for sw_bb, t_ in ot.items():
                        known[sw_bb] = t_[st_]
            rets = set(body.return_blocks())
            seen_, stack_, off = set(), [e], None
            while stack_:
                x = stack_.pop()
                if x in seen_:
                    continue
                seen_.add(x)
                if handles(x):
                    continue
                if x in rets:
                    off = x
                    break
                stack_.extend([known[x]] if x in known else body.succs(x))
            if off is not None:
                partial = off
        if fate.err_arm_blocks and partial is not None and ('LOGGED' in k or any('Err' in return_variants_from(body, e) for e in fate.err_arm_blocks)):
            return 'HANDLED-ARM', 'on some path from the Err arm (return at bb%s, line %s) the error is neither logged nor returned' % (partial, body.blocks[partial]['term']['line'])
        if 'LOGGED' in k:
            return 'LOGGED', ''
        for e in fate.err_arm_blocks:
            rv = return_variants_from(body, e)
            if 'Err' in rv or 'copy' in rv:
                return 'ERR-RETURNED', ''
        if fate.err_arm_blocks:
            return 'HANDLED-ARM', 'error arm neither logs nor returns the error'
        # only the Ok arm is inspected (`if let Ok(..)`)
        return 'DISCARDED', 'only the Ok arm is inspected'
    if 'RETURNED' in k:
        return 'RETURNED', ''
    if 'STORED' in k:
        return 'STORED', ''
    if 'PASSED' in k:
        return 'PASSED', '; '.join(fate.notes)
    return 'DISCARDED', 'no use found'


def io_result(call):
    if not is_result_ty(call.dty):
        return False
    e = result_err_ty(call.dty) or ''
    return bool(re.search(r'(^|::)io::Error$|^std::io::Error$|error::Error$|nix::errno::Errno$|^Error$', e))


# ---------------------------------------------------------------------------
# Mandatory steps: a call that every successful path through a function must pass, except under named conditions

def bypass_decisions(body, call_bb):
    """switch blocks from which one successor still reaches `call_bb` while another reaches a return without it"""
    rets = set(body.return_blocks())
    out = []
    can_reach_call = {x for x in range(len(body.blocks)) if call_bb in body.reachable(x)}
    for d in body.live_blocks():
        t = body.blocks[d]['term']
        if t['k'] != 'switch' or d not in can_reach_call:
            continue
        if d != call_bb and body.dominates(call_bb, d):
            continue        # the step has been passed on every path to this decision (a loop that may run it again)
        succ = [x for x in dict.fromkeys(t['tgts']) if body.blocks[x]['term']['k'] != 'unreach']
        to_call = [x for x in succ if x in can_reach_call or x == call_bb]
        bypass = [x for x in succ if rets & body.reachable(x, avoid=[call_bb])]
        # a successor that can do both is not decided here
        pure_bypass = [x for x in bypass if x not in to_call or (rets & body.reachable(x, avoid=[call_bb]) and x != call_bb and call_bb not in body.reachable(x))]
        pure_bypass = [x for x in succ if x != call_bb and call_bb not in body.reachable(x) and rets & body.reachable(x)]
        if to_call and pure_bypass and d != call_bb:
            out.append((d, pure_bypass))
    return out


def describe_switch(body, d, _depth=0):
    from ..analysis import direct_field, direct_def
    t = body.blocks[d]['term']
    df = direct_field(body, t['op'])
    if df:
        return ('field', df[0])
    dd = direct_def(body, t['op'])
    if dd[0] == 'stmt' and dd[1]['rv']['k'] == 'disc':
        p = dd[1]['rv']['p']
        fs = [e[2] for e in p[1] if isinstance(e, list) and e[0] == 'F']
        ty = body.local_ty(p[0])
        if fs:
            if fs[-1] in ('0', '1') or fs[-1].isdigit():
                dl0 = direct_def(body, {'c': [p[0], []]})
                if dl0[0] == 'call':
                    return ('disc-call', dl0[1].path or dl0[1].decl)
            return ('disc-field', fs[-1])
        # discriminant of a local: what produced it?
        dl = direct_def(body, {'c': [p[0], []]})
        if dl[0] == 'call':
            if dl[1].matches(r'as std::ops::Try>::branch$'):
                return ('try', '?')
            return ('disc-call', dl[1].path or dl[1].decl)
        return ('disc', ty)
    if dd[0] == 'call':
        # `x.is_some()` / `x.is_none()` / `r.is_ok()` / `r.is_err()` decide what `match x` decides: the discriminant of x
        if dd[1].matches(r'^std::option::Option::<T>::(is_some|is_none)$|^std::result::Result::<T, E>::(is_ok|is_err)$') and dd[1].args:
            a0 = dd[1].args[0]
            base = direct_def(body, a0)
            if base[0] == 'call':
                if base[1].matches(r'as std::ops::Try>::branch$'):
                    return ('try', '?')
                return ('disc-call', base[1].path or base[1].decl)
            if base[0] == 'ref':
                # a reference to a local: what produced the local?
                dl = direct_def(body, {'c': [base[1], []]})
                if dl[0] == 'call':
                    return ('disc-call', dl[1].path or dl[1].decl)
                return ('disc', body.local_ty(base[1]))
            if base[0] == 'place':
                fs = [e[2] for e in base[1][1] if isinstance(e, list) and e[0] == 'F']
                if fs and not fs[-1].isdigit():
                    return ('disc-field', fs[-1])
            l0 = op_local(a0)
            if l0 is not None:
                return ('disc', body.local_ty(l0))
        return ('call', dd[1].path or dd[1].decl)
    if dd[0] == 'stmt' and dd[1]['rv']['k'] == 'un' and dd[1]['rv'].get('op') == 'Not' and op_local(dd[1]['rv']['a']) is not None:
        # `if !x.is_some()`: the same decision with the branches swapped
        saved = body.blocks[d]
        body.blocks[d] = dict(saved, term=dict(saved['term'], op=dd[1]['rv']['a']))
        try:
            return describe_switch(body, d)
        finally:
            body.blocks[d] = saved
    if dd[0] == 'stmt' and dd[1]['rv']['k'] == 'bin':
        return ('cmp', dd[1]['rv']['op'])
    if dd[0] == 'local' and body.local_ty(dd[1]) == 'bool' and len(body.defs().get(dd[1], [])) > 1 and not _depth:
        # a flag assembled by `a && b` / `a || b` (`let renamed = use_rename && rename().is_ok(); if !renamed {..}`): the decision is made by
        # what the flag was assembled from - a constant stands for the test that chose it, anything else for itself
        parts = []
        for d_ in body.defs()[dd[1]]:
            if d_[2] == 'call':
                parts.append(_describe_value(body, d_[0], {'c': [d_[3].dest[0], []]}, via_call=d_[3]))
            elif d_[3]['rv']['k'] == 'use' and const_bool_op(d_[3]['rv']['op']) is not None:
                chooser = None
                for x in sorted(body.dominators()[d_[0]], key=lambda y: len(body.dominators()[y]), reverse=True):
                    if x != d_[0] and body.blocks[x]['term']['k'] == 'switch' and x != d:
                        chooser = x
                        break
                parts.append(describe_switch(body, chooser, _depth=1) if chooser is not None else ('const', ''))
            elif d_[3]['rv']['k'] == 'use':
                saved = body.blocks[d]
                body.blocks[d] = dict(saved, term=dict(saved['term'], op=d_[3]['rv']['op']))
                try:
                    parts.append(describe_switch(body, d, _depth=1))
                finally:
                    body.blocks[d] = saved
            else:
                parts.append(('stmt', ''))
        return ('multi', parts)
    return (dd[0], '')


def const_bool_op(op):
    from ..facts import const_bool
    return const_bool(op)


def _describe_value(body, bb, op, via_call=None):
    c = via_call
    if c is not None and c.matches(r'^std::option::Option::<T>::(is_some|is_none)$|^std::result::Result::<T, E>::(is_ok|is_err)$') and c.args:
        from ..analysis import direct_def
        base = direct_def(body, c.args[0])
        if base[0] == 'call':
            return ('disc-call', base[1].path or base[1].decl)
        if base[0] == 'ref':
            dl = direct_def(body, {'c': [base[1], []]})
            if dl[0] == 'call':
                return ('disc-call', dl[1].path or dl[1].decl)
            return ('disc', body.local_ty(base[1]))
    return ('call', (c.path or c.decl) if c is not None else '')


def mandatory_step(ctx, rule, body, call, key, what, allowed_fields=(), allowed_calls=(), allow_err_return=True):
    """Every path through `body` that returns successfully passes `call`, unless it leaves through a decision that is
    (a) a `?`/Result test whose bypass side returns an error, (b) a test of one of `allowed_fields`, (c) a test on the
    result of a call matching one of `allowed_calls` (e.g. an emptiness test, an iterator `next`)."""
    from ..analysis import return_variants_from
    bad = []
    def allowed(kind, name):
        if kind in ('field', 'disc-field') and name in allowed_fields:
            return True
        if kind in ('call', 'disc-call', 'disc') and any(re.search(rx, name) for rx in allowed_calls):
            return True
        if kind == 'multi':
            return bool(name) and all(allowed(k_, n_) for k_, n_ in name)
        return False
    for d, bypass in bypass_decisions(body, call.bb):
        kind, name = describe_switch(body, d)
        if allowed(kind, name):
            continue
        if allow_err_return and kind in ('try', 'disc-call', 'disc', 'call'):
            # bypass must return an error (or None for Option functions)
            rv = set()
            for x in bypass:
                rv |= return_variants_from(body, x)
            if rv and rv <= {'Err', 'None'}:
                continue
        bad.append((d, kind, name))
    if bad:
        d, kind, name = bad[0]
        ctx.violation(rule, key, body.where(body.blocks[d]['term']['line']), '%s can be skipped: a path decided at line %s by %s `%s` returns without it' % (what, body.blocks[d]['term']['line'], kind, name))
        return False
    ctx.ok(rule, key, call.where(), '%s on every successful path%s' % (what, (' (skipped only under: %s)' % ', '.join(allowed_fields)) if allowed_fields else ''))
    return True


ITER_NEXT = r'Iterator>::next$|Iterator::next$'
OPT_TRANSFORM = r'Option<transform::Transform>'

# property -> list of (function, callee regex, which occurrence (index or None = all), what, allowed fields, allowed call/type regexes)
MANDATORY = {
    'C02': [
        ('dedupe::partition', r'::retain$|Iterator::filter$', 0, 'the regular-file filter', (), ()),
        ('dedupe::partition', r'::retain$|Iterator::filter$', 1, 'the length filter', ('no_check_size',), ()),
        ('dedupe::partition', r'dedupe::was_modified$', 0, 'the modification check', ('modified_before',), ()),
        ('dedupe::partition', r'FileSubGroup.*::group$', 0, 'sub-grouping', ('modified_before',), (r'dedupe::was_modified$',)),
        ('dedupe::partition', r'Iterator>::count$|Iterator::count$', 0, 'the top-up of the retained set (its loop condition)', ('modified_before',), (r'dedupe::was_modified$', r'::is_empty$')),
        ('dedupe::dedupe::{closure#0}', r'dedupe::fetch_files_metadata$', 0, 'fetching the metadata of every member', (), ()),
        ('dedupe::dedupe::{closure#0}', r'dedupe::partition$', 0, 'partition() of every group whose metadata could be read', (), (r'dedupe::fetch_files_metadata$', ITER_NEXT)),
    ],
    'C03': [
        ('group::rehash', r'group::partition_by_devices$', 0, 'handing the accepted groups to the hashing threads', (), ()),
        ('group::rehash', r'::chain$', 0, 'chaining the passed-through groups', (), ()),
        ('group::rehash', r'::filter$', 0, 'the stage post-filter', (), ()),
        ('group::group_files', r'^group::scan_files$', 0, 'the directory scan', (), ()),
        ('group::group_files', r'^group::group_by_size$', 0, 'grouping by size', ('transform',), (OPT_TRANSFORM,)),
        ('group::group_files', r'^group::remove_same_files$', 0, 'removal of repeated paths', ('transform',), (OPT_TRANSFORM,)),
        ('group::group_files', r'^group::deduplicate$', 0, 'removal of repeated paths (transform branch)', ('transform',), (OPT_TRANSFORM,)),
        ('group::group_files', r'^group::group_by_prefix$', 0, 'the prefix stage', ('transform',), (OPT_TRANSFORM,)),
        ('group::group_files', r'^group::group_by_suffix$', 0, 'the suffix stage', ('transform',), (OPT_TRANSFORM,)),
        ('group::group_files', r'^group::group_by_contents$', 0, 'the contents stage', ('skip_content_hash', 'transform'), (OPT_TRANSFORM,)),
        ('group::group_files', r'^group::group_transformed$', 0, 'grouping of transformed files', ('transform',), (OPT_TRANSFORM,)),
    ],
    'C09': [
        ('group::scan_files', r"walk::Walk::<'a>::run$", 0, 'the directory walk', (), ()),
        ("walk::Walk::<'a>::visit_entry", r"Walk::<'a>::visit_file$", 0, 'visiting a file entry', ('hidden', 'follow_links', 'no_ignore', 'tpe'), (r'::starts_with$', r'DashSet.*::insert$', r'Walk::<.a>::mark_visited$', r'IgnoreStack::matches$', r'file_name_cstr$')),
        ("walk::Walk::<'a>::visit_entry", r"Walk::<'a>::visit_dir$", 0, 'visiting a directory entry', ('hidden', 'follow_links', 'no_ignore', 'tpe'), (r'::starts_with$', r'DashSet.*::insert$', r'Walk::<.a>::mark_visited$', r'IgnoreStack::matches$', r'file_name_cstr$')),
        ("walk::Walk::<'a>::visit_entry", r"Walk::<'a>::visit_link$", 0, 'visiting a link entry', ('hidden', 'follow_links', 'no_ignore', 'tpe'), (r'::starts_with$', r'DashSet.*::insert$', r'Walk::<.a>::mark_visited$', r'IgnoreStack::matches$', r'file_name_cstr$')),
        ("walk::Walk::<'a>::visit_file", r'Fn.*::call$|FnOnce::call_once$|FnMut::call_mut$', 0, 'reporting a file', (), (r'PathSelector::matches_full_path$',)),
    ],
    'C12': [
        ("hasher::FileHasher::<'_>::hash_file", r'::load_hash$', 0, 'the cache lookup', (), ()),
        ("hasher::FileHasher::<'_>::hash_file", r'::store_hash$', 0, 'storing the computed hash', (), (r'::load_hash$',)),
        ("hasher::FileHasher::<'_>::hash_transformed", r'::load_hash$', 0, 'the cache lookup', (), ()),
        ("hasher::FileHasher::<'_>::hash_transformed", r'::store_hash$', 0, 'storing the computed hash', (), (r'::load_hash$', r'ExitStatus::success$', r'ExitStatus::code$')),
    ],
    'C13': [
        ('group::group_files', r'par_sort_by_key$|sort_by_key$', 0, 'the final ordering of groups', (), ()),
        ('group::group_files', r'for_each$', 0, 'the per-group path sort', (), ()),
    ],
    'C14': [
        ('group::write_report_with_timestamp', r'ReportWriter.*::write$', None, 'writing the report', (), (r'Option<std::path::PathBuf>',)),
    ],
    'C10': [
        ('<report::TextReportIterator<R> as fallible_iterator::FallibleIterator>::next', r'::read_paths$', 0, 'reading the announced paths of a group', ('stopped_on_error',), (r'::read_group_header$', r'Option<report::GroupHeader>')),
    ],
    'C11': [
        ('dedupe::log_script::{closure#0}', r'PriorityQueue.*::push$', 0, 'queueing a received group', (), (r'Receiver.*::recv$',)),
    ],
    'C01': [
        ('group::group_by_prefix', r'group::rehash$', 0, 'the prefix stage regrouping', (), ()),
        ('group::group_by_suffix', r'group::rehash$', 0, 'the suffix stage regrouping', (), ()),
        ('group::group_by_contents', r'group::rehash$', 0, 'the contents stage regrouping', (), ()),
        ('group::group_by_prefix::{closure#3}', r'hash_file_or_log_err$', 0, 'hashing the prefix of every file handed to the stage', (), ()),
        ('group::group_by_contents::{closure#3}', r'hash_file_or_log_err$', 0, 'hashing the contents of every file handed to the stage', (), ()),
        ('hasher::file_hash', r'hasher::stream_hash$', 0, 'hashing the opened chunk', (), ()),
        ('hasher::stream_hash', r'hasher::scan$', 0, 'reading the stream', (), ()),
        ("hasher::FileHasher::<'_>::hash_file_or_log_err", r'::hash_file$', 0, 'computing the hash', (), ()),
    ],
    'C05': [
        ('dedupe::FsCommand::execute', r'FsCommand::safe_remove$', None, 'the safe replacement of the file by a link', (), (r'&dedupe::FsCommand$',)),
        ('dedupe::FsCommand::execute', r'reflink::reflink$', 0, 'the reflink replacement', (), (r'&dedupe::FsCommand$',)),
        ('dedupe::FsCommand::execute', r'FsCommand::move_copy$', 0, 'the copy fall-back of move', ('use_rename',), (r'&dedupe::FsCommand$', r'Result.*::is_ok$', r'FsCommand::move_rename$')),
    ],
    'C07': [
        ('transform::Transform::run', r'Transform::make_args$', 0, 'building the argument vector', (), ()),
        ('transform::build_command', r'Input::prepare_input_file$|^std::fs::copy$', 0, 'preparing the private input copy before the program is started', (), (r'&transform::Input$',)),
    ],
    'C04': [
        ('bin::run_dedupe', r'(^|::)dedupe::dedupe$|^fclones::dedupe$', 0, 'generating the script from the (validated) report', ('rf_over',), (r'Option.*::is_none$',)),
    ],
    'C15': [
        ("walk::Walk::<'a>::visit_dir", r"Walk::<'a>::log_warn$", 0, 'the warning for an unreadable directory', (), None),
    ],
}


def rehash_core_path(lib):
    """the function that holds the regrouping machinery (partition by devices, hashing tasks, drain loop): `group::rehash`, or the function of the
    group module it merely delegates to (`rehash` keeps the signature the callers and the tests know)"""
    b = lib.body('group::rehash')
    seen = set()
    while b is not None and b.path not in seen and not b.calls(r'group::partition_by_devices$'):
        seen.add(b.path)
        nxt = [c for c in b.calls(r'^group::\w+$') if c.f.get('local')]
        b = lib.body(nxt[0].path) if len(nxt) == 1 else None
    return b.path if b is not None else 'group::rehash'


def rehash_core(lib):
    return lib.body(rehash_core_path(lib))


def rehash_rx(lib):
    """a call of rehash, or of the function it delegates to (same argument order: groups, pre-filter, post-filter, ..., hash function last)"""
    return r'^(%s)$' % '|'.join(sorted({re.escape('group::rehash'), re.escape(rehash_core_path(lib))}))


def remove_sites(lib, b, rx=r'FsCommand::remove$|^std::fs::remove_file$'):
    """(call, params of b the removed path derives from) for the removals in b: direct ones, and those made by a helper of the same impl that
    is handed the path (one level: `Self::remove_copy(target, e)` removes its first parameter)"""
    out = []
    for c in b.calls(rx):
        out.append((c, set(backslice(b, [c.args[0]]).params)))
    for c in b.calls(r'^dedupe::FsCommand::\w+$|^reflink::\w+$'):
        if c.matches(rx) or not c.f.get('local'):
            continue
        hb = lib.body(c.path)
        if hb is None or hb.path == b.path:
            continue
        for r in hb.calls(rx):
            hp = set(backslice(hb, [r.args[0]]).params)
            if hp and all(1 <= q <= len(c.args) for q in hp):
                ps = set()
                for q in hp:
                    ps |= set(backslice(b, [c.args[q - 1]]).params)
                out.append((c, ps))
    return out


def resolve_body(ctx, fn, rx):
    """`parent::{closure#N}` is looked up by content, not by number: the closure below `parent` that contains a call matching rx
    (closure numbers shift whenever another closure is added to the function)"""
    lib = ctx.lib
    if fn.startswith('bin::'):
        return ctx.bin.body(fn[5:]) if ctx.bin else None
    m = re.match(r'^(.*?)::\{closure#\d+\}$', fn)
    if not m:
        return lib.body(fn)
    parent = m.group(1)
    exact = lib.body(fn)
    if exact is not None and exact.calls(rx):
        return exact
    cands = [lib.body(c) for c in lib.closures_of(parent, recursive=False) if lib.body(c).calls(rx)]
    if len(cands) == 1:
        return cands[0]
    cands = [lib.body(c) for c in lib.closures_of(parent) if lib.body(c).calls(rx)]
    return cands[0] if len(cands) == 1 else exact


def run_mandatory(ctx, prop):
    rule = '%s.M' % prop
    lib = ctx.lib
    n = 0
    for (fn, rx, occ, what, fields, calls) in MANDATORY.get(prop, []):
        if fn == 'group::rehash':
            fn = rehash_core_path(lib)
        if rx == r'group::rehash$':
            rx = rehash_rx(lib)
        b = resolve_body(ctx, fn, rx)
        if b is None:
            ctx.missing(rule, 'fn ' + fn)
            continue
        cs = sorted(b.calls(rx), key=lambda c: (c.line, c.bb))
        if calls is None:
            # only presence is required (the call sits on an error arm by design)
            ctx.check(bool(cs), rule, '%s|%s' % (fn, what), (cs[0].where() if cs else b.where()), '%s is present' % what, '%s is gone' % what)
            n += 1
            continue
        if not cs or (occ is not None and occ >= 0 and occ >= len(cs)):
            ctx.missing(rule, '%s (%s) in %s' % (what, rx, fn), b.where())
            continue
        sel = cs if occ is None else [cs[occ]]
        for c in sel:
            n += 1
            ctx.fn(b)
            mandatory_step(ctx, rule, b, c, '%s|%s%s' % (fn, what, ('@%d' % c.line) if occ is None else ''), what, allowed_fields=fields, allowed_calls=calls)
    return n


MANDATORY_TEXT = 'mandatory steps: each listed step lies on every successful path of its function; the complete set of conditions under which it may be skipped is pinned (option flags named in the table, `?`/error returns, iterator exhaustion) - any additional skipping condition is a violation'


RAW_HASH_WRITE = r'Hasher>::write$|Hasher::write$|Hash>::hash_slice$|Digest>::update$|Update>::update$'
HASH_DELIM = r'Hasher>::write_(u8|u16|u32|u64|usize|length_prefix|str)$|Hasher::write_(u8|u16|u32|u64|usize|length_prefix|str)$|to_bytes_with_nul$|as_bytes_with_nul$'


def delimited_identity_hash(ctx, rule, fn, _seen=None):
    """An identity hash over a sequence of variable-length parts must delimit the parts: either it delegates to a
    std/derived Hash impl (length-prefixed slices, discriminants) or every body that feeds raw bytes to the hasher also
    feeds a delimiter.  Otherwise distinct sequences with the same concatenation collide (a/bc vs ab/c)."""
    lib = ctx.lib
    b = ctx.need_body(rule, fn)
    if b is None:
        return
    seen = _seen if _seen is not None else set()
    if b.path in seen:
        return
    seen.add(b.path)
    bodies = [b] + [lib.body(c) for c in lib.closures_of(b.path)]
    deleg = [c for x in bodies for c in x.calls(r'^<.* as std::hash::Hash>::hash$|impl std::hash::Hash for .*>::hash$')]
    raw = [(x, c) for x in bodies for c in x.calls(RAW_HASH_WRITE)]
    bad = [(x, c) for x, c in raw if not x.calls(HASH_DELIM)]
    ctx.check(bool(deleg or raw) and not bad, rule, b.path + '|parts-delimited', (bad[0][1].where() if bad else b.where()),
              '%s feeds its hasher through %d Hash impl call(s) and %d raw write(s), every raw write next to a delimiter' % (b.path, len(deleg), len(raw)),
              '%s writes variable-length parts to the hasher (%s) without a length prefix or terminator: sequences with the same concatenation (a/bc and ab/c) get the same key, '
              'and the key is used as the identity of a path' % (b.path, bad[0][1].path.rsplit('::', 1)[-1] if bad else 'nothing'))
    for c in deleg:
        tgt = c.f.get('canon') or c.path
        tb = lib.body(c.path) or lib.body(tgt)
        if tb is not None and not tb.derived:
            delimited_identity_hash(ctx, rule, tb.path, seen)


FLUSH_CALL = r'Write>::flush$|Write::flush$|csv::Writer(::)?<.*>::flush$|BufWriter(::)?<.*>::(flush|into_inner)$|File::sync_all$|File::sync_data$'


def flush_points(body, _depth=0):
    """(tests, via, notes): the Result tests of the body, the blocks at which a flush has been called with its result
    propagated (here or in a local `&mut self` callee that flushes on success), and notes on flushes that do not count"""
    unit = body.unit
    tests = {}
    for c in body.calls():
        if is_result_ty(c.dty):
            tests.update(result_tests(body, c))
    via = set()
    notes = []
    for c in body.calls():
        if c.matches(FLUSH_CALL):
            cat, det = err_handling(body, c)
            if cat in ('PROPAGATED', 'RETURNED', 'ERR-RETURNED'):
                via.add(c.bb)
            else:
                notes.append('%s at %s is %s' % (c.path.rsplit('::', 1)[-1], c.where(), cat))
        elif c.f.get('local') and is_result_ty(c.dty) and _depth < 3 and c.args and 'mut' in (body.local_ty(op_local(c.args[0])) if op_local(c.args[0]) is not None else ''):
            cb = unit.body(c.path)
            if cb is not None:
                ok, w = flushed_on_success(cb, _depth + 1)
                cat, det = err_handling(body, c)
                if ok and cat in ('PROPAGATED', 'RETURNED', 'ERR-RETURNED'):
                    via.add(c.bb)
                elif not ok:
                    notes.append('%s (%s)' % (c.path.rsplit('::', 1)[-1], w))
    return tests, via, notes


def flushed_on_success(body, _depth=0):
    """(ok, witness): on every path through `body` on which all fallible calls succeed, a flush of the writer is
    called and its result propagated/returned - either here or in the local callee whose result is returned."""
    tests, via, unflushed = flush_points(body, _depth)
    r = reachable_state(body, 0, tests, 'ok', avoid=via)
    rets = sorted(set(body.return_blocks()) & r)
    if not rets:
        return True, 'flush on every success path (%d flush point(s))' % len(via)
    return False, 'a success path reaches the return at line %s without a checked flush%s' % (body.blocks[rets[0]]['term']['line'], ('; on the way: ' + '; '.join(sorted(set(unflushed))[:4])) if unflushed else '')


BUFFERED_TY = r'(^|[<( ,])std::io::(BufWriter|LineWriter)<'


def buffered_drops(body):
    """[(bb, local, ty, flushed, witness)] for every drop (on a non-unwind path) of a value that contains a std buffered
    writer: flushed = on the all-calls-succeed paths a checked flush is passed before the drop"""
    drops = [(bi, blk['term']) for bi, blk in enumerate(body.blocks) if not blk['cleanup'] and blk['term']['k'] == 'drop' and re.search(BUFFERED_TY, blk['term'].get('ty') or '')
             and not (blk['term'].get('ty') or '').startswith('&')]
    if not drops:
        return []
    tests, via, notes = flush_points(body)
    r = reachable_state(body, 0, tests, 'ok', avoid=via)
    r_all = reachable_state(body, 0, tests, 'ok')
    out = []
    for bi, t in drops:
        if bi not in r_all:
            continue        # only reached after a failed call: that error is already being reported
        out.append((bi, t['p'][0], t['ty'], bi not in r, '; '.join(sorted(set(notes))[:3])))
    return out


def buffered_drop_discipline(ctx, rule, bodies, armed=True):
    """every buffered writer that is dropped on a success path was flushed with the result checked"""
    n = 0
    for b in bodies:
        for bi, l, ty, flushed, w in buffered_drops(b):
            n += 1
            key = '%s|buffered-drop|%s' % (b.path, b.local_name(l) or ty.split('<')[0].rsplit('::', 1)[-1])
            where = b.where(b.blocks[bi]['term']['line'])
            msg = ('%s (a %s) is dropped on a path where every call succeeded without a checked flush%s: the error of the last buffered write is discarded by the drop and the '
                   'operation reports success on truncated output' % (b.local_name(l) or '_%d' % l, ty.split('<')[0], (' (' + w + ')') if w else ''))
            if flushed:
                ctx.ok(rule, key, where, '%s flushed (result checked) before it is dropped on success paths' % (b.local_name(l) or ty.split('<')[0]))
            elif armed:
                ctx.violation(rule, key, where, msg)
            else:
                ctx.note(rule, where, 'sweep: ' + msg)
    return n


def aggregates_deep(lib, b, adt_suffix):
    """constructions of an ADT in `b` and in the closures created in `b` (a `for` loop turned into `filter_map(|f| ..)`, with helpers the
    closure calls already spliced in): [(anchor block in b, statement, body that holds the statement, block there)]. The anchor of a
    construction inside a closure is the block of `b` that creates the closure: what dominates the creation dominates every call of it."""
    from ..analysis import aggregates, closure_creation
    out = [(bi, s_, b, bi) for bi, s_ in aggregates(b, adt_suffix)]
    for cp in lib.closures_of(b.path):
        cb = lib.body(cp)
        if cb is None:
            continue
        inner = aggregates(cb, adt_suffix)
        if not inner:
            continue
        # climb to the closure that `b` itself creates
        top, cr = cp, closure_creation(lib, cp)
        hops = 0
        while cr is not None and cr[0] is not b and hops < 4:
            top = cr[0].path
            cr = closure_creation(lib, top)
            hops += 1
        if cr is None or cr[0] is not b:
            continue
        for bi, s_ in inner:
            out.append((cr[1], s_, cb, bi))
    return out


def reevaluate(ctx, new_rule, fn, *args):
    """run another property's rule function and re-label the obligations it adds as `new_rule` (cross-reference)"""
    before = len(ctx.obligations)
    fn(ctx, *args)
    for o in ctx.obligations[before:]:
        o['key'] = o['key'].replace(o['rule'] + '|', new_rule + '|', 1)
        o['detail'] = '[%s] %s' % (o['rule'], o['detail'])
        o['rule'] = new_rule
    ctx.rules_run.add(new_rule)


def stdin_paths_body(lib):
    """The body that turns the standard input into the paths to scan: GroupConfig::input_paths or the sibling it
    delegates to (same impl, name starting with input_paths); found by its call of std::io::stdin."""
    cands = [b for p_, b in sorted(lib.bodies.items()) if re.search(r'^config::GroupConfig::input_paths\w*$', p_)]
    for b in cands:
        if b.calls(r'^std::io::stdin$'):
            return b
    return lib.body('config::GroupConfig::input_paths')

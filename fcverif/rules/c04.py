"""C04 - a stale report never causes removal of changed data."""
import re
from . import register
from .common import err_handling
from .c20 import follow_to_params
from ..analysis import (backslice, classify_result, switch_on_result_of, return_variants_from, comparisons, branch_of,
                        dominated_region, must_pass_before, count_nots, switch_targets_bool, field_writes, aggregates,
                        agg_field, closure_creation, forward_locals, FLIP)
from ..callgraph import CallGraph
from ..facts import op_local, const_bool, op_const, place_fields, Call, rvalue_operands, const_int as const_int

DOC = {
    'explanation': 'Structural clauses of the staleness protection: run_dedupe defaults modified_before from the report header on every path to dedupe() (R1); '
                   'partition runs was_modified on every path to its Ok result unless modified_before is None, and a positive answer returns Err (R2); was_modified '
                   'compares file mtime > timestamp, treats an unreadable mtime as modified and never resets its answer (R3); the length check is skipped only under '
                   'no_check_size, which the binary derives only from the presence of a transform (R4); any metadata error discards the whole group (R5); and the '
                   'timestamp written into the report header is sampled before the scan starts (R6).',
    'rules': {
        'C04.M': __import__('fcverif.rules.common', fromlist=['MANDATORY_TEXT']).MANDATORY_TEXT,
        'C04.R1': 'run_dedupe: on every path to dedupe(..) modified_before is Some (defaulted from header.timestamp, never cleared)',
        'C04.R2': 'partition: every path to Ok(PartitionedFileGroup) passes was_modified(files, timestamp) unless modified_before is None; its true edge returns Err; the files checked are the files grouped',
        'C04.R3': 'was_modified: relation is mtime > after (or >=) with the resolution of the stored time stamp added to the file time (whole-second time stamps), an unreadable mtime yields true, the answer is never reset to false, all files are examined',
        'C04.R4': 'the length filter is skipped only under no_check_size; run_dedupe sets it only via |= transform.is_some(); the regular-file filter is unconditional',
        'C04.R5': 'fetch_files_metadata: try_map_all fails iff any element failed; the failure discards the group',
        'C04.R8': 'the limit of the staleness test, when the user gives it (--modified-before), is the instant he wrote: parse_date_time converts the naive date and time returned by dtparse with from_local_datetime of the parsed (or the local) offset, never with from_naive_utc_and_offset / from_utc, which would read the wall-clock digits as UTC',
        'C04.R7': 'the metadata the staleness tests run on follow symbolic links (fs::metadata), so the time stamp that was_modified compares also covers the link itself: the compared value derives from an lstat (symlink_metadata / link_metadata) of the path as well - a member replaced by a symlink to an old file of the same length after the report is seen as modified',
        'C04.R6': 'the clock read that becomes ReportHeader.timestamp happens before group_files starts reading files',
    },
    'not_decided': 'file-system timestamp granularity; real interleavings of writers with the scan; clock adjustments',
    'assumptions': ['a content change also changes mtime or length (premise of the property)'],
}


@register('C04', DOC)
def run(ctx):
    r1(ctx)
    r2(ctx)
    r3(ctx)
    r4(ctx)
    r5(ctx)
    r6(ctx)
    r7(ctx)
    r8(ctx)
    from .common import run_mandatory
    run_mandatory(ctx, 'C04')


def r1(ctx):
    rule = 'C04.R1'
    bn = ctx.bin
    if bn is None:
        ctx.missing(rule, 'binary unit')
        return
    b = bn.body('run_dedupe')
    if b is None:
        ctx.missing(rule, 'fn run_dedupe (binary)')
        return
    ctx.fn(b)
    P = 'bin::run_dedupe'
    ded = b.calls(r'(^|::)dedupe::dedupe$|^fclones::dedupe$')
    if not ctx.floor(rule, 'dedupe(..) call in run_dedupe', len(ded), 1, b.where()):
        return
    D = ded[0]
    ws = field_writes(b, 'modified_before', 'DedupeConfig')
    somes = []
    for bi, s in ws:
        sl = backslice(b, rvalue_operands(s['rv']))
        is_some = (s['rv']['k'] == 'agg' and s['rv'].get('variant') == 'Some') or any(st['rv'].get('variant') == 'Some' for blk in b.blocks for st in blk['stmts'] if st['p'][0] in sl.locals and st['rv']['k'] == 'agg')
        is_none = (s['rv']['k'] == 'agg' and s['rv'].get('variant') == 'None')
        if is_none:
            ctx.violation(rule, P + '|cleared', b.where(s['line']), 'modified_before is reset to None')
        elif is_some:
            somes.append((bi, s, sl))
    if not somes:
        # the same default written as `modified_before.get_or_insert(header.timestamp)`: assigned only when None, by the definition of the method
        from ..analysis import option_default_events
        ev = [e for e in option_default_events(bn, b, 'modified_before', 'DedupeConfig') if e[2] == 'get_or_insert']
        if ev:
            gbb, vsl, _ = ev[0]
            ctx.stats[rule + ':modified_before = Some(..) assignments'] = len(ev)
            ctx.check('timestamp' in vsl.field_names(), rule, P + '|default-source', b.where(b.blocks[gbb]['term']['line']), 'default value is header.timestamp', 'the default does not come from header.timestamp (%s)' % vsl.describe(b))
            ctx.check(b.dominates(gbb, D.bb), rule, P + '|some-on-every-path', b.where(b.blocks[gbb]['term']['line']),
                      'every path on which modified_before is None assigns Some(header.timestamp) before dedupe() (get_or_insert dominates the call)', 'a path reaches dedupe() with modified_before still None')
            csl = backslice(b, [D.args[2]])
            gsl_ = backslice(b, [b.call_at(gbb).args[0]])
            ctx.check(bool(csl.locals & gsl_.locals), rule, P + '|same-config', D.where(), 'dedupe() receives the defaulted configuration', 'dedupe() receives a different configuration than the one that was defaulted')
            return
    if not ctx.floor(rule, 'modified_before = Some(..) assignments', len(somes), 1, b.where()):
        return
    bi, s, sl = somes[0]
    ctx.check('timestamp' in sl.field_names(), rule, P + '|default-source', b.where(s['line']), 'default value is header.timestamp', 'the default does not come from header.timestamp (%s)' % sl.describe(b))
    # the guarding test on modified_before
    guards = []
    for d in b.dominators()[D.bb]:
        t = b.blocks[d]['term']
        if t['k'] == 'switch':
            gsl = backslice(b, [t['op']])
            if 'modified_before' in gsl.field_names():
                guards.append((d, t, gsl))
    if not guards:
        # unconditional assignment that dominates the call is fine too
        ctx.check(b.dominates(bi, D.bb), rule, P + '|some-on-every-path', b.where(s['line']), 'the default is assigned unconditionally before dedupe()', 'no test of modified_before dominates dedupe() and the default is conditional')
        return
    d, t, gsl = guards[-1]
    side = [x for x in dict.fromkeys(t['tgts']) if b.dominates(x, bi)]
    if not side:
        ctx.violation(rule, P + '|some-on-every-path', b.where(s['line']), 'the default assignment is not under the test of modified_before')
        return
    ok = must_pass_before(b, side[0], [bi], D.bb)
    # the test must be `is_none` (or a discriminant test): the side with the assignment is the None side
    isnone = gsl.has_call(r'Option(::)?<.*>::is_none$')
    issome = gsl.has_call(r'Option(::)?<.*>::is_some$')
    tt, ft = switch_targets_bool(t)
    polarity = True
    if isnone or issome:
        n = count_nots(b, gsl)
        none_side = tt if (isnone == (n % 2 == 0)) else ft
        polarity = none_side == side[0]
    ctx.check(ok and polarity, rule, P + '|some-on-every-path', b.where(s['line']),
              'every path on which modified_before is None assigns Some(header.timestamp) before dedupe()',
              'a path reaches dedupe() with modified_before still None' if not ok else 'the default is assigned on the wrong side of the is_none test')
    # the config handed to dedupe is the one that was defaulted
    csl = backslice(b, [D.args[2]])
    wsl = backslice(b, [s['p'][0]])
    ctx.check(bool(csl.locals & {s['p'][0]}) or bool(csl.locals & wsl.locals), rule, P + '|same-config', D.where(), 'dedupe() receives the defaulted configuration', 'dedupe() receives a different configuration object')


def r2(ctx):
    rule = 'C04.R2'
    lib = ctx.lib
    b = ctx.need_body(rule, 'dedupe::partition')
    if b is None:
        return
    P = b.path
    wm = b.calls(r'dedupe::was_modified$')
    res = aggregates(b, 'dedupe::PartitionedFileGroup')
    if not wm:
        inner = [(cp, c) for cp in lib.closures_of(b.path) for c in lib.body(cp).calls(r'dedupe::was_modified$')]
        if inner:
            cp, c = inner[0]
            ctx.violation(rule, P + '|same-files', c.where(), 'was_modified is only applied inside %s, i.e. to a part of the group (sub-groups / a filtered subset), '
                          'not to the whole vector of files that is grouped and partitioned: a change of an unchecked member (e.g. the retained file) goes unnoticed' % cp)
            return
    if not ctx.floor(rule, 'was_modified call in partition', len(wm), 1, b.where()) or not ctx.floor(rule, 'PartitionedFileGroup construction', len(res), 1, b.where()):
        return
    W = wm[0]
    Pbb = res[0][0]
    # the test of config.modified_before
    guards = []
    for d in b.dominators()[W.bb]:
        t = b.blocks[d]['term']
        if t['k'] == 'switch':
            gsl = backslice(b, [t['op']])
            if 'modified_before' in gsl.field_names():
                guards.append((d, t))
    if not guards:
        ctx.check(b.dominates(W.bb, Pbb), rule, P + '|checked-on-every-path', W.where(), 'was_modified dominates the Ok result', 'was_modified is neither unconditional nor guarded by modified_before')
    else:
        d, t = guards[-1]
        some_side = [x for x in dict.fromkeys(t['tgts']) if b.dominates(x, W.bb)]
        others = [x for x in dict.fromkeys(t['tgts']) if x not in some_side and b.blocks[x]['term']['k'] != 'unreach']
        ok = b.dominates(d, Pbb) and some_side and must_pass_before(b, some_side[0], [W.bb], Pbb)
        # the other side must be the None variant: the payload (timestamp) passed to was_modified comes from the Some side
        tsl = backslice(b, [W.args[1]])
        ok2 = 'modified_before' in tsl.field_names()
        # discriminant switch: value 1 = Some
        disc_ok = True
        if t['vals'] and some_side:
            m = dict(zip(t['vals'], t['tgts']))
            disc_ok = (m.get(1) == some_side[0]) or (1 not in m and t['tgts'][-1] == some_side[0])
        ctx.check(bool(ok) and ok2 and disc_ok, rule, P + '|checked-on-every-path', W.where(),
                  'every path to Ok(PartitionedFileGroup) with modified_before = Some(t) passes was_modified(files, t)',
                  'a path reaches the Ok result without was_modified although modified_before is Some' if not ok else 'was_modified is not given the configured timestamp / wrong variant side')
        # no further guard between the Some side and the call
        extra = [x for x in b.dominators()[W.bb] if x != d and b.dominates(some_side[0], x) and b.blocks[x]['term']['k'] == 'switch'] if some_side else []
        ctx.check(not extra, rule, P + '|no-extra-guard', W.where(), 'no additional condition guards was_modified', 'was_modified is skipped under an additional condition (bb%s)' % extra)
    # its true edge returns Err
    # (the answer may be moved into a flag first: `let modified = match .. { Some(t) => was_modified(..), None => false }; if modified {..}`)
    br = None
    for l_ in sorted(forward_locals(b, W.dest[0])):
        for (bbx, idx, what) in b.operand_uses(l_):
            if what[0] == 'switch' and br is None:
                br = what[1]
    if br is None:
        ctx.violation(rule, P + '|modified-returns-err', W.where(), 'the result of was_modified is not branched on')
    else:
        tt, ft = switch_targets_bool(br)
        rv_t = return_variants_from(b, tt)
        ctx.check('Err' in rv_t and 'Ok' not in rv_t and Pbb not in b.reachable(tt), rule, P + '|modified-returns-err', W.where(),
                  'was_modified == true returns Err (the whole group is skipped)', 'was_modified == true can still lead to %s' % sorted(rv_t))
    # the files checked are the files that get sub-grouped (no file is added after the check)
    grp = b.calls(r'FileSubGroup<.*>::group$|group::FileSubGroup::<P>::group$|FileSubGroup.*::group$')
    if ctx.floor(rule, 'FileSubGroup::group call in partition', len(grp), 1, b.where()):
        G = grp[0]
        a = backslice(b, [W.args[0]])
        g = backslice(b, [G.args[0]])
        named = {b.local_name(l) for l in a.locals & g.locals if b.local_name(l)}
        okd = any(b.dominates(x, G.bb) for x in ([ft] if br is not None else [])) if guards else True
        # ... and not a narrowed version of it: every selecting / splitting step behind the checked vector is also behind the grouped one
        NARROW = r'Iterator::(filter|filter_map|take|skip|take_while|skip_while|step_by|partition)$|::(retain|retain_mut|drain|split_off|truncate|remove|swap_remove|pop|split_at|split_first|split_last)$'
        na = {(c.bb, c.path.rsplit('::', 1)[-1]) for c in a.calls if c.matches(NARROW)}
        ng = {(c.bb, c.path.rsplit('::', 1)[-1]) for c in g.calls if c.matches(NARROW)}
        only = sorted(na - ng)
        ctx.check(bool(named) and not only, rule, P + '|same-files', (W.where() if only else G.where()), 'was_modified examines the vector that is grouped afterwards (%s), not a selection of it' % ','.join(sorted(named)),
                  ('the vector given to was_modified is a selection of the group (%s at bb%d is behind it but not behind the grouped vector): a member that is left out - the retained file, which has to carry '
                   'the content of the dropped ones - can have been rewritten since the report without the group being skipped' % (only[0][1], only[0][0])) if only else 'the checked files are not the grouped files')
        ctx.check(W.bb in b.dominators()[G.bb] or bool(guards), rule, P + '|check-before-grouping', G.where(), 'the check precedes the grouping', 'grouping happens before the staleness check')


def r8(ctx):
    """The limit given with --modified-before denotes the instant the user wrote."""
    rule = 'C04.R8'
    lib = ctx.lib
    b = ctx.need_body(rule, 'config::parse_date_time')
    if b is None:
        return
    ps = b.calls(r'^dtparse::parse$')
    if not ctx.floor(rule, 'dtparse::parse in parse_date_time', len(ps), 1, b.where()):
        return
    bodies = [b] + [lib.body(cp) for cp in lib.closures_of(b.path)]
    as_utc = [c for x in bodies for c in x.calls(r'DateTime::<Tz>::from_naive_utc_and_offset$|DateTime<.*>::from_naive_utc_and_offset$|::from_utc$|TimeZone::from_utc_datetime$|TimeZone>::from_utc_datetime$|NaiveDateTime::and_utc$')
              if any(k.bb == ps[0].bb for a in c.args for k in backslice(x, [a]).calls) or x is not b]
    as_local = [c for x in bodies for c in x.calls(r'TimeZone::from_local_datetime$|TimeZone>::from_local_datetime$|NaiveDateTime::and_local_timezone$|from_local_datetime$')]
    # the helpers parse_date_time calls (an inner fn that resolves the LocalResult) belong to it
    helpers = [hb for x in list(bodies) for k in x.calls(r'^config::parse_date_time::\w+$|^config::\w+$') for hb in [lib.body(k.path)] if hb is not None and hb.path != b.path]
    allb = bodies + helpers + [lib.body(cp) for hb in helpers for cp in lib.closures_of(hb.path)]
    # (b) a wall-clock time that exists twice (the clocks are turned back): the earlier INSTANT is the safe limit.  chrono's LocalResult::earliest()
    # returns the first element of Ambiguous(..), which chrono 0.4.31 orders by offset, not by instant
    amb = [c for x in allb for c in x.calls(r'LocalResult<.*>::(earliest|latest|single|unwrap)$|LocalResult::<T>::(earliest|latest|single|unwrap)$')]
    mn = [c for x in allb for c in x.calls(r'^std::cmp::min$|Ord::min$|Ord>::min$')]
    picks = [c for c in amb if c.path.endswith(('earliest', 'latest', 'unwrap'))]
    ctx.check(not picks and (bool(mn) or any(c.path.endswith('single') for c in amb)), rule, b.path + '|ambiguous-takes-the-earlier-instant', (picks[0].where() if picks else b.where()),
              'an ambiguous local time is resolved by comparing the two instants (min), or refused',
              'an ambiguous local time (the hour that exists twice when the clocks are turned back) is resolved with LocalResult::%s(): chrono orders the two candidates by UTC offset, so "earliest" is the '
              'reading with the smaller offset, i.e. the LATER instant (02:30 CET instead of 02:30 CEST): `remove -m "2024-10-27 02:30:00"` processes a group whose file was rewritten at 02:45 CEST'
              % (picks[0].path.rsplit('::', 1)[-1] if picks else ''))
    # (c) a zone the parser does not know is not silently dropped: the arm without an offset looks at the words of the input
    words = [c for x in allb for c in x.calls(r'str::<impl str>::(split_whitespace|split|split_ascii_whitespace|chars|contains|ends_with|find|matches)$')
             if 1 in backslice(x, [c.args[0]]).params or x is not b]
    ctx.check(bool(words), rule, b.path + '|unknown-zone-refused', b.where(), 'a time given with a zone name the parser does not resolve is refused instead of being taken as local time',
              'dtparse returns no offset both when the string has no zone and when it has a zone NAME it does not know (JST, EST, CEST - what `date` prints; it even prints "tzname .. identified but not '
              'understood" on stdout), and parse_date_time takes the digits as local time in both cases: `remove -m "2024-05-01 12:00:00 JST"` on a machine running in UTC sets the limit 9 hours too late')
    # (d) the offset is not the one dtparse reports: dtparse 2.0 reads `+0530` as +05:00 (it measures the sign token), `UTC+9` / `GMT+9` as 9 hours
    # BEHIND UTC (the POSIX reading) - the offset applied to the wall-clock time comes from fclones' own reading of the string, and a zone that only
    # dtparse has seen is refused
    from_parser = []
    own = False
    for x in bodies:
        for c in x.calls(r'from_local_datetime$'):
            if 'FixedOffset' not in ((c.t.get('argtys') or [''])[0]):
                continue
            sl = backslice(x, [c.args[0]])
            if any(k.bb == ps[0].bb and x is b for k in sl.calls):
                from_parser.append(c)
            if sl.has_call(r'^config::\w+$'):
                own = True
    ctx.check(not from_parser and own, rule, b.path + '|offset-read-by-fclones', (from_parser[0].where() if from_parser else ps[0].where()),
              'the offset applied to the parsed wall-clock time is read by fclones itself (a function of config::), never the one dtparse reports',
              'the offset reported by dtparse is trusted: dtparse 2.0.0 reads `+0530` as +05:00 (lib.rs:843 measures the sign token, the minutes are dropped), `UTC+09:00` / `GMT+9` as nine hours BEHIND '
              'UTC, and ignores the `+9` of `UTC +9`: `remove -m "2024-05-01 12:00:00.000 +0530"` - the very form fclones writes into its reports - sets the limit 30 minutes late, with `UTC+09:00` '
              '18 hours late, and a file rewritten in between is removed as a duplicate of what it no longer is')
    ctx.check(bool(as_local) and not as_utc, rule, b.path + '|wall-clock-in-its-zone', (as_utc[0].where() if as_utc else ps[0].where()),
              'the parsed date and time are taken as the wall-clock time of the given (or local) time zone (%d conversions)' % len(as_local),
              'the date and time parsed from --modified-before are wall-clock digits in the given (or local) offset, but they are handed to from_naive_utc_and_offset, which reads the same digits as UTC: '
              'the limit is off by the whole UTC offset - east of Greenwich it lies 1..14 hours in the future, so groups with files modified after the time the user gave are still processed '
              '(`remove -m "2024-05-01 12:00:00 +09:00"` removes a duplicate of a file written at 13:00 +09:00)')


def r3(ctx):
    rule = 'C04.R3'
    lib = ctx.lib
    b = ctx.need_body(rule, 'dedupe::was_modified')
    if b is None:
        return
    from ..desugar import desugared
    b = desugared(lib, b)           # `checked_add(r).map_or(true, |t| t > after)` is `match checked_add(r) { Some(t) => t > after, None => true }`
    P = b.path
    mods = b.calls(r'^std::fs::Metadata::modified$')
    if not ctx.floor(rule, 'Metadata::modified in was_modified', len(mods), 1, b.where()):
        return
    M = mods[0]
    cands = []
    for cmp in comparisons(b):
        sa, sb = backslice(b, [cmp.a]), backslice(b, [cmp.b])
        a_m, b_m = sa.has_call(r'Metadata::modified$'), sb.has_call(r'Metadata::modified$')
        a_p, b_p = 2 in sa.params, 2 in sb.params
        if a_m and b_p and not a_p:
            cands.append((cmp, cmp.op))
        elif b_m and a_p and not b_p:
            cands.append((cmp, FLIP[cmp.op]))
    if not cands:
        ctx.missing(rule, 'comparison of the file mtime with the `after` parameter', b.where())
        return
    cmp, rel = cands[0]
    br = branch_of(b, cmp)
    # the local that is returned
    rsl = backslice(b, [0])
    res_locals = {l for l in rsl.locals if b.local_ty(l) == 'bool' and b.local_name(l)}
    assigns = []
    for bi, blk in enumerate(b.blocks):
        if blk['cleanup']:
            continue
        for s in blk['stmts']:
            if s['p'][0] in res_locals and not s['p'][1]:
                assigns.append((bi, s, const_bool(s['rv']['op']) if s['rv']['k'] == 'use' else None))
    if not any(v is True for _, _, v in assigns):
        # the same answer kept as a count: `n += 1` where the flag would be set, `n > 0` returned. An increment makes the answer true for
        # good (the count starts at a constant and is never decreased or reset)
        for rc in comparisons(b):
            k_a, k_b = const_int(rc.a), const_int(rc.b)
            if rc.dest not in rsl.locals or (k_a is None) == (k_b is None):
                continue
            var, k, op = (rc.a, k_b, rc.op) if k_b is not None else (rc.b, k_a, FLIP[rc.op])
            if not ((op == '>' and k == 0) or (op == '!=' and k == 0) or (op == '>=' and k == 1)):
                continue
            from ..analysis import base_named_local
            cl = base_named_local(b, var)
            if cl is None:
                continue
            incs, others = [], []
            for bi, blk in enumerate(b.blocks):
                if blk['cleanup']:
                    continue
                for s in blk['stmts']:
                    if s['p'][0] == cl and not s['p'][1]:
                        src_ = backslice(b, rvalue_operands(s['rv']), stop_local=lambda x: x == cl)
                        addc = [st for op_, st in src_.binops if op_.startswith('Add') and (const_int(st['rv']['b']) or 0) >= 1 and op_local(st['rv']['a']) == cl]
                        if addc and not [1 for op_, st in src_.binops if not op_.startswith('Add')]:
                            incs.append((bi, s, True))
                        elif s['rv']['k'] == 'use' and const_int(s['rv']['op']) == 0 and bi not in b.reachable(b.succs(bi)[0] if b.succs(bi) else bi) - {bi} or (s['rv']['k'] == 'use' and const_int(s['rv']['op']) == 0):
                            others.append((bi, s, False))
                        else:
                            others.append((bi, s, None))
            if incs:
                assigns = incs + others
                res_locals = {cl}
                break
    if br is None:
        ctx.violation(rule, P + '|relation', b.where(cmp.line), 'the mtime comparison does not control anything')
    else:
        sw, tt, ft = br
        # which side sets the answer to true?
        sets_true_t = any(v is True and b.dominates(tt, bi) for bi, s, v in assigns) or 'true' in str(return_variants_from(b, tt))
        sets_true_f = any(v is True and b.dominates(ft, bi) for bi, s, v in assigns)
        eff = rel if sets_true_t and not sets_true_f else ({'<': '>=', '<=': '>', '>': '<=', '>=': '<'}.get(rel, rel) if sets_true_f and not sets_true_t else None)
        ctx.check(eff in ('>', '>='), rule, P + '|relation', b.where(cmp.line), 'modified iff mtime %s after' % eff,
                  'the answer is set to true when mtime %s after (expected mtime > after)' % eff)
    # the stored mtime can be much coarser (1 s, 2 s) than the millisecond time stamp of the report: a write made after `after` within the same
    # tick is stored with an EARLIER time.  The comparison has to allow for that: the file-time operand carries an added resolution that is
    # chosen from the sub-second part of the stored time.
    msl = backslice(b, [cmp.a]) if backslice(b, [cmp.a]).has_call(r'Metadata::modified$') else backslice(b, [cmp.b])
    added = [c for c in msl.calls if c.matches(r'as std::ops::(Add|Sub)<.*>>::(add|sub)$|::checked_(add|sub)(_signed)?$')]
    sub = [c for c in b.calls(r'subsec_(nanos|micros|millis)$|::nanosecond$|timestamp_subsec')]
    # ... the amount that is added is CHOSEN by the sub-second part: it is assigned on both sides of a test of that part (or computed from it)
    chosen = False
    for c in added:
        for a in c.args[1:]:
            asl = backslice(b, [a])
            if any(k.bb == x.bb for k in asl.calls for x in sub):
                chosen = True                       # computed from the sub-second part
            defs = {bi for bi, blk in enumerate(b.blocks) for st in blk['stmts'] if st['p'][0] in asl.locals and not blk['cleanup']} | {k.bb for k in asl.calls}
            for bi, blk in enumerate(b.blocks):
                t = blk['term']
                if t['k'] != 'switch' or not any(k.bb == x.bb for k in backslice(b, [t['op']]).calls for x in sub):
                    continue
                sides = [x for x in dict.fromkeys(t['tgts'])]
                hit = [any(b.dominates(sd, d) for d in defs) for sd in sides]
                if sum(hit) >= 2:
                    chosen = True
    ctx.check(bool(added) and bool(sub) and chosen, rule, P + '|resolution', b.where(cmp.line), 'the compared file time includes the resolution of the stored time stamp (whole-second time stamps get a slack)',
              'the stored mtime is compared with the millisecond time stamp of the report as it is: on a file system that keeps whole seconds (ext3, ext4 with 128-byte inodes, HFS+, NFS/SMB servers; '
              'FAT: 2 s) a write made after `fclones group` started, but within the same second, is stored with a time BEFORE the report time stamp - the group is processed on the stale belief and '
              'the only file still holding the original bytes is removed')
    # a time beyond the range of the calendar (tmpfs, btrfs, ZFS, NFS store what they are given: `touch -d @99999999999999`, damaged metadata) is far in
    # the future, not a reason to panic: the file time does not go through chrono's From<SystemTime> (it unwraps timestamp_opt) on its way to the comparison
    conv = [c for c in b.calls(r'convert::(From|Into)<.*>>::(from|into)$')
            if 'SystemTime' in ((c.t.get('argtys') or [''])[0]) and 'DateTime' in (c.dty or '') and backslice(b, [c.args[0]]).has_call(r'Metadata::modified$')]
    ctx.check(not conv, rule, P + '|out-of-range-mtime-is-no-panic', (conv[0].where() if conv else b.where(cmp.line)), 'the file time is compared as a SystemTime: no conversion that can fail on the way',
              'the modification time is converted with DateTime::<Local>::from(SystemTime), which unwraps timestamp_opt() and panics ("No such local time") for a time beyond the year +-262143: one member '
              'with such an mtime makes remove / link / move / dedupe (and --dry-run) die with exit 101 and a truncated script, instead of skipping its group with a warning')
    # the comparison is between instants, not wall-clock readings in possibly different UTC offsets
    tys = []
    if isinstance(cmp.site, Call):
        tys = cmp.site.t.get('argtys', [])
    wall = [c.path for op_ in (cmp.a, cmp.b) for c in backslice(b, [op_]).calls
            if c.matches(r'DateTime<.*>::(naive_local|time|date_naive|date|hour|minute|second|format)$|DateTime::<Tz>::(naive_local|time|date_naive|date|format)$|Timelike|Datelike')]
    naive = any('Naive' in t for t in tys)
    ctx.check(not wall and not naive, rule, P + '|instants-compared', b.where(cmp.line), 'the two operands are time-zone aware instants (%s)' % ', '.join(t.replace('chrono::', '') for t in tys),
              'the comparison is made on wall-clock values (%s; operand types %s): reports and dedupe runs in different UTC offsets compare wrongly' % (sorted(set(wall)), tys))
    # unreadable mtime => true
    sw = switch_on_result_of(b, M)
    if sw is None or not sw['err']:
        ctx.violation(rule, P + '|unreadable-mtime', M.where(), 'the result of Metadata::modified is not matched')
    else:
        # every way from the failure of modified() to the return passes an assignment of `true` to the answer (the arm that does it may be
        # shared with the failure of the link's modified())
        true_bbs = {bi for bi, s, v in assigns if v is True}
        # (later tests of the same Result - `(modified, _) => modified` and then `match modified` - are resolved the same way: it is an Err)
        from ..analysis import result_tests, must_pass_state
        mt_ = result_tests(b, M)
        good = bool(true_bbs) and all((must_pass_state(b, e, mt_, 'err', true_bbs)[0] if mt_ else b.must_pass(e, lambda x: x in true_bbs)[0]) for e in sw['err'])
        ctx.check(good, rule, P + '|unreadable-mtime', M.where(), 'an unreadable mtime sets the answer to true', 'an unreadable mtime does not set the answer to true (fails open)')
    falses = [(bi, s) for bi, s, v in assigns if v is False]
    nonconst = [(bi, s) for bi, s, v in assigns if v is None]
    in_loop = [bi for bi, s in falses if bi in b.reachable(b.succs(bi)[0]) if b.succs(bi)]
    ctx.check(len(falses) <= 1 and not in_loop and not nonconst, rule, P + '|never-reset', b.where(), 'the answer starts false and is only ever set to true',
              'the answer can be reset (false assigned %d times, %d inside the loop, %d non-constant assignments)' % (len(falses), len(in_loop), len(nonconst)))
    # all files are examined
    lim = b.calls(r'Iterator::(take|skip|step_by|take_while|skip_while|filter|nth|rev)$|slice.*::(first|last|get|split_at|chunks|windows)$')
    it = b.calls(r'slice::<impl \[T\]>::iter$|IntoIterator>::into_iter$|IntoIterator::into_iter$')
    src_ok = any(1 in backslice(b, [c.args[0]]).params for c in it)
    ctx.check(not lim and src_ok, rule, P + '|all-files', b.where(), 'iterates over the whole `files` slice', 'the loop does not cover every file (%s)' % [c.path for c in lim])
    # every file's mtime is the one compared: `modified` receiver derives from the loop element
    ctx.check(1 in backslice(b, [M.args[0]]).params, rule, P + '|mtime-of-element', M.where(), 'mtime read from the element\'s metadata', 'mtime is not read from the iterated element')


def r4(ctx):
    rule = 'C04.R4'
    lib = ctx.lib
    b = ctx.need_body(rule, 'dedupe::partition')
    if b is None:
        return
    P = b.path
    res = aggregates(b, 'dedupe::PartitionedFileGroup')
    if not res:
        return
    Pbb = res[0][0]
    retains = b.calls(r'Vec::<T, A>::retain$|Vec<.*>::retain$|::retain$|Iterator::filter$')     # `v.retain(p)` or `v.into_iter().filter(p).collect()`
    len_r, file_r = [], []
    for c in retains:
        cl = c.f.get('gargs', [])
        # closure passed as arg 1
        l = op_local(c.args[1])
        ty = b.local_ty(l) if l is not None else ''
        for cp in lib.closures_of(b.path, recursive=False):
            cr = closure_creation(lib, cp)
            if cr and l in forward_locals(b, cr[2]['p'][0]):
                cb = lib.body(cp)
                if cb.calls(r'Metadata::is_file$'):
                    file_r.append((c, cb))
                if any(True for cm in comparisons(cb) if cm.op in ('==', '!=') and (backslice(cb, [cm.a]).has_call(r'FileMetadata::len$|Metadata::len$') or backslice(cb, [cm.b]).has_call(r'FileMetadata::len$|Metadata::len$'))):
                    len_r.append((c, cb))
    if ctx.floor(rule, 'regular-file filter (retain + is_file)', len(file_r), 1, b.where()):
        c, cb = file_r[0]
        rs = backslice(cb, [0])
        from ..analysis import truth_table, table_equals
        isf = cb.calls(r'Metadata::is_file$')
        ident = False
        if isf:
            tt = truth_table(cb, {'is_file': isf[0].bb})
            ident = table_equals(tt, lambda a: a['is_file'])[0]
        ctx.check(ident, rule, P + '|regular-files-identity', c.where(), 'a file is kept iff metadata.is_file()', 'the filter keeps entries for which is_file() is false (or drops regular files)')
        # (the returned bool is is_file() itself, or constants chosen by a branch on it - the table above has decided which)
        ctx.check(b.dominates(c.bb, Pbb) and ((rs.has_call(r'Metadata::is_file$') and count_nots(cb, rs) == 0) or ident), rule, P + '|regular-files-only', c.where(),
                  'files.retain(is_file) dominates the result', 'the regular-file filter is conditional or does not return is_file')
    if ctx.floor(rule, 'length filter (retain + len == file_len)', len(len_r), 1, b.where()):
        c, cb = len_r[0]
        guards = []
        for d in b.dominators()[c.bb]:
            t = b.blocks[d]['term']
            if t['k'] == 'switch' and d != c.bb:
                gsl = backslice(b, [t['op']])
                fn_ = gsl.field_names()
                guards.append((d, t, gsl, fn_))
        cond = [g for g in guards if b.blocks[g[0]]['term']['vals'] in ([0], [1], [0, 1]) and g[3] and 'no_check_size' in g[3]]
        other = [g for g in guards if g not in cond and g[3] and not g[2].has_call(r'Try>::branch') and 'modified_before' not in g[3]]
        good = len(cond) == 1 and not other
        if good:
            d, t, gsl, _ = cond[0]
            tt, ft = switch_targets_bool(t)
            n = count_nots(b, gsl)
            run_side = ft if n % 2 == 0 else tt      # filter runs when no_check_size is false
            good = b.dominates(run_side, c.bb)
        ctx.check(good, rule, P + '|length-check-guard', c.where(), 'the length filter runs unless no_check_size', 'the length filter is skipped under a condition other than no_check_size (guards: %s)' % [sorted(g[3]) for g in guards])
        # the closure keeps a file iff len == group length
        cm = [x for x in comparisons(cb) if x.op in ('==', '!=')]
        rs = backslice(cb, [0])
        keep_eq = cm and cm[0].dest in rs.locals and ((cm[0].op == '==') == (count_nots(cb, rs) % 2 == 0))
        if cm and not keep_eq:
            # `if len == group_len { return true } ..; false`: the answer is a constant chosen by the comparison
            from ..analysis import truth_table, table_equals
            tt_ = truth_table(cb, {'eq': cm[0].bb})
            keep_eq = table_equals(tt_, (lambda a: a['eq']) if cm[0].op == '==' else (lambda a: not a['eq']))[0]
        oth = backslice(cb, [cm[0].b]) if cm else None
        ctx.check(bool(keep_eq), rule, P + '|length-check-relation', cb.where(), 'keeps a file iff its current length equals the recorded one', 'the length filter does not keep exactly the files of equal length')
    # run_dedupe: no_check_size only |= transform.is_some()
    bn = ctx.bin
    rd = bn.body('run_dedupe') if bn else None
    if rd is None:
        ctx.missing(rule, 'fn run_dedupe (binary)')
        return
    from ..analysis import bool_set_events
    for bi, s, cond in bool_set_events(rd, 'no_check_size', 'DedupeConfig'):
        # `no_check_size |= transform.is_some()` or `if transform.is_some() { no_check_size = true }`
        good = cond is not None and 'transform' in cond.field_names() and cond.has_call(r'Option(::)?<.*>::is_some$') and not any(const_bool({'k': k}) is True for k in cond.consts)
        ctx.check(good, rule, 'bin::run_dedupe|no_check_size-source', rd.where(s['line']), 'no_check_size is only switched on, by transform.is_some()',
                  'no_check_size is set from %s' % (cond.describe(rd) if cond is not None else 'something else than a condition that switches it on'))
    for u, tag in ((lib, ''), (bn, 'bin::')):
        for bb_ in u.bodies.values():
            if bb_ is rd or '::test' in bb_.path or bb_.derived or 'clap::' in bb_.path:
                continue
            for bi, s in field_writes(bb_, 'no_check_size', 'DedupeConfig'):
                ctx.violation(rule, tag + bb_.path + '|no_check_size-write', bb_.where(s['line']), 'no_check_size is written outside run_dedupe')
            for bi, s in aggregates(bb_, 'config::DedupeConfig'):
                o = agg_field(s, 'no_check_size')
                if o is not None and const_bool(o) is not False and 'from_arg_matches' not in bb_.path:
                    sl = backslice(bb_, [o])
                    if any(const_bool({'k': k}) is True for k in sl.consts):
                        ctx.violation(rule, tag + bb_.path + '|no_check_size-init', bb_.where(s['line']), 'DedupeConfig is built with no_check_size = true')


def r5(ctx):
    rule = 'C04.R5'
    lib = ctx.lib
    f = ctx.need_body(rule, 'dedupe::fetch_files_metadata')
    if f is not None:
        tm = f.calls(r'FileGroup<.*>::try_map_all$|FileGroup::<F>::try_map_all$|::try_map_all$')
        if ctx.floor(rule, 'try_map_all in fetch_files_metadata', len(tm), 1, f.where()):
            fate = classify_result(f, tm[0])
            rsl = backslice(f, [0])
            good = any(c.matches(r'Result(::)?<.*>::ok$') for c in rsl.calls) and tm[0] in rsl.calls and not rsl.has_call(r'unwrap_or|or_else|or$')
            ctx.check(good, rule, f.path + '|err-discards-group', tm[0].where(), 'try_map_all(..).ok(): an Err discards the whole group', 'the result of try_map_all is not turned into None on error')
            # the element closure maps a metadata failure to Err
            for cp in lib.closures_of(f.path):
                cb = lib.body(cp)
                pm = cb.calls(r'PathAndMetadata::new$')
                if pm:
                    rs = backslice(cb, [0])
                    ctx.check(pm[0] in rs.calls and not rs.has_call(r'unwrap_or|Result(::)?<.*>::ok$'), rule, cp + '|element-error-kept', pm[0].where(),
                              'a metadata failure stays an Err element (after logging)', 'a metadata failure is converted into a success element')
    t = ctx.need_body(rule, 'group::FileGroup::<F>::try_map_all')
    if t is None:
        return
    errs = [(bi, s) for bi, s in aggregates(t, 'result::Result', 'Err')]
    oks = [(bi, s) for bi, s in aggregates(t, 'result::Result', 'Ok')]
    ie = t.calls(r'Vec<.*>::is_empty$|Vec::<T, A>::is_empty$|::is_empty$')
    part = t.calls(r'Iterator::partition$')
    good = bool(errs and oks and ie and part)
    if good:
        # Ok is produced only on the is_empty() side
        br = None
        for (bbx, idx, what) in t.operand_uses(ie[0].dest[0]):
            if what[0] == 'switch':
                br = what[1]
        good = br is not None
        if good:
            tt, ft = switch_targets_bool(br)
            good = all(t.dominates(tt, bi) for bi, s in oks) and all(t.dominates(ft, bi) for bi, s in errs)
            # is_empty is asked of the error half of the partition by Result::is_ok
            isl = backslice(t, [ie[0].args[0]])
            good = good and part[0] in isl.calls
            pk = [a for a in part[0].args[1:] if op_const(a) and 'fn' in op_const(a)]
            good = good and bool(pk) and op_const(pk[0])['fn'].endswith('::is_ok')
            # which half: (ok, err) = partition(is_ok): `err` is tuple field 1
            rd = [p for blk in t.blocks for s in blk['stmts'] if s['p'][0] in isl.locals for p in [s['rv'].get('op', {})] if p]
            half = None
            for blk in t.blocks:
                for s in blk['stmts']:
                    if s['p'][0] in isl.locals and s['rv']['k'] == 'use':
                        pl = s['rv']['op'].get('m') or s['rv']['op'].get('c')
                        if pl and pl[0] == part[0].dest[0] and pl[1]:
                            half = pl[1][0][1]
            good = good and half == 1
    ctx.check(bool(good), rule, t.path, t.where(), 'Ok iff the Err half of partition(Result::is_ok) is empty', 'try_map_all can return Ok although an element failed')


def r6(ctx):
    rule = 'C04.R6'
    lib, bn = ctx.lib, ctx.bin
    if bn is None:
        ctx.missing(rule, 'binary unit')
        return
    rg = bn.body('run_group')
    if rg is None:
        ctx.missing(rule, 'fn run_group (binary)')
        return
    ctx.fn(rg)
    scan = rg.calls(r'(^|::)group_files$')
    if not ctx.floor(rule, 'group_files call in run_group', len(scan), 1, rg.where()):
        return
    S = scan[0]
    # writer-side ReportHeader constructions reachable from run_group
    cg = CallGraph([lib, bn])
    reach = cg.reachable(['bin::run_group'])
    n = 0
    for k in sorted(reach):
        b = cg.bodies[k]
        if '::test' in b.path or b.derived or b.raw.get('exp'):
            continue
        for bi, s in aggregates(b, 'report::ReportHeader'):
            ts = agg_field(s, 'timestamp')
            if ts is None:
                continue
            sl = backslice(b, [ts])
            if sl.has_call(r'parse_timestamp|parse_from_str|DateTime.*::parse'):
                continue   # reader side
            n += 1
            ctx.fn(b)
            key = '%s|header-timestamp' % b.path
            verdict, why, where = trace_clock(ctx, cg, lib, bn, b, sl, S, rg, depth=0)
            ctx.check(verdict, rule, key, where or b.where(s['line']), why, why)
    ctx.floor(rule, 'writer-side ReportHeader constructions reachable from run_group', n, 1)


NOW = r'chrono::Local::now$|chrono::Utc::now$|SystemTime::now$'


def trace_clock(ctx, cg, lib, bn, b, sl, S, rg, depth):
    """where is the clock read that feeds this slice, relative to the scan call S in run_group?"""
    nows = [c for c in sl.calls if c.matches(NOW)]
    if nows:
        c = nows[0]
        if b is rg:
            good = rg.dominates(c.bb, S.bb) and c.bb != S.bb
            return good, ('clock read at %s dominates group_files()' % c.where()) if good else ('clock read at %s does not precede group_files()' % c.where()), c.where()
        # the clock is read inside a callee: when is that callee invoked from run_group?
        return callee_before_scan(cg, b, rg, S, c)
    if sl.items:
        st = sorted(sl.items)
        return False, 'timestamp comes from item(s) %s; cannot order it against the scan' % st, None
    if sl.params and depth < 4:
        # follow to the callers
        res = []
        me = cg._key(b.unit, b.path)
        rgreach = cg.reachable(['bin::run_group'])
        for caller in list(lib.bodies.values()) + list(bn.bodies.values()):
            if cg._key(caller.unit, caller.path) not in rgreach:
                continue
            for c in caller.calls():
                if cg.target_of(c) == me and max(sl.params) - 1 < len(c.args):
                    ob, sl2, _ = follow_to_params(caller.unit, caller, [c.args[p - 1] for p in sl.params])
                    res.append(trace_clock(ctx, cg, lib, bn, ob, sl2, S, rg, depth + 1))
        if res:
            bad = [r for r in res if not r[0]]
            return (not bad), (bad[0][1] if bad else res[0][1]), (bad[0][2] if bad else res[0][2])
    return False, 'the origin of the header timestamp could not be traced to a clock read (%s)' % sl.describe(b), None


def callee_before_scan(cg, b, rg, S, c):
    """The clock is read inside body b (not run_group).  It precedes the scan only if every call in
    run_group that can reach b dominates the scan call."""
    key = cg._key(b.unit, b.path)
    sites = []
    for x in rg.calls():
        k = cg.target_of(x)
        if k is not None and (k == key or key in cg.reachable([k])):
            sites.append(x)
    if not sites:
        return False, 'clock read in %s, which run_group does not call directly' % b.path, c.where()
    late = [x for x in sites if not (rg.dominates(x.bb, S.bb) and x.bb != S.bb)]
    if late:
        return False, 'the header timestamp is sampled in %s (%s), which run_group invokes at %s, after group_files() has read the files: a file rewritten during the scan keeps an mtime below the report timestamp' % (b.path, c.where(), late[0].where()), c.where()
    return True, 'clock read in %s, invoked before group_files()' % b.path, c.where()


def r7(ctx):
    rule = 'C04.R7'
    lib = ctx.lib
    wm = ctx.need_body(rule, 'dedupe::was_modified')
    fm = ctx.need_body(rule, 'file::FileMetadata::new')
    if wm is None or fm is None:
        return
    follows = bool(fm.calls(r'^std::fs::metadata$')) and not fm.calls(r'^std::fs::symlink_metadata$')
    if not follows:
        ctx.ok(rule, 'dedupe::was_modified|link-timestamp', fm.where(), 'FileMetadata::new does not follow symbolic links: the compared time stamp is the one of the path itself')
        return
    bodies = [wm] + [lib.body(c) for c in lib.closures_of(wm.path)]
    ok = False
    site = wm.where()
    for cmp in comparisons(wm):
        for side in (cmp.a, cmp.b):
            sl = backslice(wm, [side])
            if not sl.has_call(r'Metadata::modified$'):
                continue
            site = wm.where(cmp.line)
            names = set(sl.field_names())
            calls = list(sl.calls)
            # closures on the way (and_then(|t| ... link.modified() ...))
            for c in sl.calls:
                for a in c.args:
                    l = op_local(a)
                    cp = lib.closure_of_type(wm.local_ty(l)) if l is not None else None
                    cb = lib.body(cp) if cp else None
                    if cb is not None:
                        calls += cb.calls()
                        names |= {n for _, n in backslice(cb, [{'c': [0, []]}]).upvars}
                        cr = closure_creation(lib, cp)
                        if cr:
                            pb, bi, st = cr
                            names |= set(backslice(pb, rvalue_operands(st['rv'])).field_names())
            if 'link_metadata' in names or any(k.matches(r'^std::fs::symlink_metadata$|Path::symlink_metadata$') for k in calls):
                ok = True
    ctx.check(ok, rule, 'dedupe::was_modified|link-timestamp', site, 'the compared time stamp is the later of the target\'s and the link\'s own modification time',
              'FileMetadata follows symbolic links and was_modified compares only the time stamp of the target: a member that was replaced after the report by a symlink to an older file of the same '
              'length passes the regular-file, length and modification tests, is kept as a replica, and the real copies are removed (content lost)')

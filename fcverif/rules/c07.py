"""C07 - `group` and `--dry-run` never modify the scanned tree."""
import re
from . import register
from ..analysis import backslice, aggregates, agg_field, switch_targets_bool, count_nots, closure_creation
from ..callgraph import CallGraph, sink_kind, open_mode, SINKS
from ..flow import Flow, fmt_node
from ..facts import const_bool, op_local, op_place

DOC = {
    'explanation': 'Effect/ownership analysis over the call graph (calls, closures, trait impls, drop glue) and a field-based inter-procedural label propagation of path origins '
                   '(INPUT = scanned paths, TMP = temp dir, OUT = report file, CACHE = cache dir): every file-system mutating primitive reachable from the group entry points has '
                   'a mutated/linked path argument whose origin labels exclude INPUT (R1); from the dry-run entry points no mutating primitive other than creating the output file is '
                   'reachable (R2); the hasher opens files read-only (R3); processes are spawned only by the transform module (R4); every temporary created has an owner whose Drop '
                   'removes exactly it (R5); run_script is reachable only on the dry_run == false edge (R6).',
    'rules': {
        'C07.M': __import__('fcverif.rules.common', fromlist=['MANDATORY_TEXT']).MANDATORY_TEXT,
        'C07.R1': 'group entries: every reachable mutating primitive acts on a path with no INPUT origin (allowed: TMP, OUT, CACHE); hard_link/rename sources count as touched',
        'C07.R2': 'dry-run entries (dedupe, log_script, report readers, get_output_writer): no mutating primitive reachable except File::create(OUT)',
        'C07.R3': 'open_noatime: the OpenOptions reaching open() carry only read(true)/custom_flags',
        'C07.R4': 'Command::spawn/output/status only in transform::execute and Transform::new',
        'C07.R5': 'each creation sink with a TMP path has an owning ADT field whose Drop impl removes that field',
        'C07.R6': 'run_dedupe: run_script only on the dry_run == false edge; log_script on the other',
        'C07.R8': 'temporary files are gone afterwards also when the run is interrupted: the directory created by Transform::create_temp_dir is removed by destructors, which need the termination signals (SIGINT, SIGTERM) to be handled',
        'C07.R7': 'the transform program is handed the original file (Input::Named) only when `copy` is false; `copy` is cleared only under --no-copy; Transform::new sets copy = ($IN used)',
    },
    'not_decided': 'what the user\'s transform program does to $IN under --no-copy (documented exception); atime updates when O_NOATIME is refused; the kernel',
    'assumptions': ['the table of mutating primitives is complete for the crates fclones links', 'external crates do not mutate paths other than the ones passed to them'],
}

GROUP_ROOTS = ['bin::run_group', 'group::group_files', 'group::write_report', 'group::write_report_with_timestamp']
DRY_ROOTS = ['dedupe::dedupe', 'dedupe::log_script', 'bin::get_output_writer', 'report::open_report', 'bin::get_command_config']
ALLOWED = {'TMP', 'OUT', 'CACHE'}


def build_flow(ctx):
    units = [ctx.lib] + ([ctx.bin] if ctx.bin else [])
    cg = CallGraph(units)
    fl = Flow(units, 'origin', cg)
    for adt, var, f in [('file::FileInfo', '', 'path'), ('hasher::FileChunk', '', 'path'), ('config::GroupConfig', '', 'paths'),
                        ('group::FileGroup', '', 'files'), ('dedupe::PathAndMetadata', '', 'path'), ('walk::Entry', '', 'path')]:
        fl.seed('INPUT', ('F', adt, var, f))
    fl.seed('TMP', ('F', 'transform::Transform', '', 'tmp_dir'))
    fl.seed('OUT', ('F', 'config::GroupConfig', '', 'output'))
    fl.seed('OUT', ('F', 'config::DedupeConfig', '', 'output'))
    n_src = 0
    for k, b in cg.bodies.items():
        for c in b.calls(r'^std::env::temp_dir$'):
            fl.seed('TMP', ('L', k, c.dest[0]))
            n_src += 1
        for c in b.calls(r'^dirs::cache_dir$'):
            fl.seed('CACHE', ('L', k, c.dest[0]))
            n_src += 1
        # the parameter `input` of Transform::run / make_args and the walker's root paths are scanned paths
        if b.path in ('transform::Transform::run', 'transform::Transform::make_args', 'transform::Transform::output'):
            for i in range(1, b.argc + 1):
                if b.local_name(i) == 'input':
                    fl.seed('INPUT', ('L', k, i))
        if b.path == "walk::Walk::<'a>::run":
            for i in range(1, b.argc + 1):
                if b.local_name(i) == 'roots':
                    fl.seed('INPUT', ('L', k, i))
    fl.solve()
    return cg, fl, n_src


@register('C07', DOC)
def run(ctx):
    cg, fl, n_src = build_flow(ctx)
    ctx.stats['flow:nodes-with-labels'] = sum(1 for v in fl.labels.values() if v)
    ctx.stats['flow:edges'] = sum(len(v) for v in fl.edges.values())
    r1(ctx, cg, fl)
    r2(ctx, cg, fl)
    r3(ctx, cg)
    r4(ctx, cg)
    r5(ctx, cg, fl)
    r6(ctx)
    r7(ctx)
    r8(ctx)
    from .common import run_mandatory
    run_mandatory(ctx, 'C07')


def r8(ctx):
    """The temporary directory of a --transform run is removed by destructors only: they do not run when the process is killed by a signal."""
    rule = 'C07.R8'
    lib, bn = ctx.lib, ctx.bin
    ct = lib.body('transform::Transform::create_temp_dir')
    if ct is None:
        ctx.missing(rule, 'Transform::create_temp_dir')
        return
    units = [lib] + ([bn] if bn else [])
    handlers = [c for u in units for b in u.bodies.values() if not re.search(r'(^|::)tests?(::|$)', b.path)
                for c in b.calls(r'^libc::(signal|sigaction|sigwait|sigwaitinfo|pthread_sigmask|signalfd)$|signal_hook|ctrlc::set_handler|nix::sys::signal::')]
    ctx.check(bool(handlers), rule, ct.path + '|removed-on-signal', ct.where(), 'termination signals are handled, so the temporary directory can be removed',
              'the per-run directory $TMPDIR/fclones-<uuid> (with the private copies of the files being transformed, and the named pipes) is removed only by `Drop for Transform` / `Input` / `Output`; '
              'fclones handles no signal, so Ctrl-C or SIGTERM - the normal way a long --transform run ends early - kills the process without running any destructor and the directory stays')


def sink_sites(cg, keys):
    out = []
    for k in sorted(keys):
        b = cg.bodies[k]
        if re.search(r'(^|::)tests?(::|$)', b.path):
            continue
        for c, kind, idx in cg.sinks_in(k):
            if c.f.get('local'):
                continue
            out.append((k, b, c, kind, idx))
    return out


def r1(ctx, cg, fl):
    rule = 'C07.R1'
    reach = cg.reachable([r for r in GROUP_ROOTS if r in cg.bodies])
    missing = [r for r in ('bin::run_group', 'group::group_files') if r not in cg.bodies]
    for m in missing:
        ctx.missing(rule, 'entry ' + m)
    sites = sink_sites(cg, reach)
    ctx.stats['C07.R1:bodies reachable from the group entries'] = len(reach)
    ctx.floor(rule, 'mutating primitive call sites reachable from the group entries', len(sites), 12)
    for k, b, c, kind, idx in sites:
        ctx.fn(b)
        if kind == 'EXEC':
            continue
        if kind == 'OpenOptions::open':
            methods, unknown, _ = open_mode(b, c)
            if b.kind == 'closure' and unknown:
                # builder captured from the parent: include the parent's builder calls
                pb = cg.bodies.get(cg._key(b.unit, b.raw.get('parent'))) if b.raw.get('parent') else None
                if pb is not None:
                    for pc in pb.calls(r'^std::fs::OpenOptions::open$'):
                        m2, _, _ = open_mode(pb, pc)
                        methods |= m2
            if not (methods & {'write', 'append', 'create', 'create_new', 'truncate'}):
                ctx.ok(rule, '%s|%s' % (k, kind), c.where(), 'read-only open (builder methods: %s)' % ','.join(sorted(methods)))
                continue
        for i in (idx or [0]):
            if i >= len(c.args):
                continue
            nodes = fl.op_read(k, b, c.args[i])
            labels = fl.labels_of(nodes)
            key = '%s|%s(arg%d)' % (k, kind, i)
            if 'INPUT' in labels:
                w = fl.witness('INPUT', nodes)
                ctx.violation(rule, key, c.where(), '%s is applied to a path that may be a scanned file (origins %s); reached from the group entry via %s; INPUT flows: %s'
                              % (kind, sorted(labels), ' -> '.join(cg.path_to(k)[-4:]), ' => '.join(w[-6:])))
            else:
                ctx.ok(rule, key, c.where(), '%s on a path of origin %s' % (kind, sorted(labels) or ['<unlabelled: constant or derived from no tracked source>']))


def r2(ctx, cg, fl):
    rule = 'C07.R2'
    roots = [r for r in DRY_ROOTS if r in cg.bodies]
    for r in ('dedupe::dedupe', 'dedupe::log_script', 'bin::get_output_writer'):
        if r not in cg.bodies:
            ctx.missing(rule, 'entry ' + r)
    # readers: every method of the ReportReader impls
    for k in cg.bodies:
        if re.search(r'report::(TextReportReader|JsonReportReader|TextReportIterator).*::(read_header|read_groups|next|read_paths|read_line|read_extract)$', k):
            roots.append(k)
    reach = cg.reachable(roots)
    ctx.stats['C07.R2:bodies reachable from the dry-run entries'] = len(reach)
    sites = sink_sites(cg, reach)
    n_ok = 0
    for k, b, c, kind, idx in sites:
        ctx.fn(b)
        key = '%s|%s' % (k, kind)
        if kind == 'File::create':
            labels = fl.labels_of(fl.op_read(k, b, c.args[0]))
            ctx.check('INPUT' not in labels and k == 'bin::get_output_writer', rule, key, c.where(), 'creates the --output file (origin %s)' % sorted(labels), 'File::create on a path of origin %s in %s' % (sorted(labels), k))
            n_ok += 1
            continue
        if kind == 'OpenOptions::open':
            methods, unknown, _ = open_mode(b, c)
            if not (methods & {'write', 'append', 'create', 'create_new', 'truncate'}):
                ctx.ok(rule, key, c.where(), 'read-only open')
                continue
            # (a write-mode open is a violation even when nothing is written through it: on overlayfs open(O_WRONLY) copies the file up into the upper
            # layer and detaches it from its hard links - D154 was exactly such a "probe", and this rule had been loosened to let it through)
        ctx.violation(rule, key, c.where(), '%s is reachable from the dry-run path: %s' % (kind, ' -> '.join(cg.path_to(k)[-5:])))
    ctx.floor(rule, 'File::create(OUT) in get_output_writer', n_ok, 1)
    # the lock primitive and every FsCommand primitive stay unreachable
    for must_not in ('lock::FileLock::new', 'dedupe::FsCommand::execute', 'dedupe::FsCommand::remove', 'dedupe::FsCommand::unsafe_rename', 'dedupe::run_script'):
        if must_not in cg.bodies:
            ctx.check(must_not not in reach, rule, '%s|unreachable' % must_not, cg.bodies[must_not].where(), 'not reachable from the dry-run entries',
                      'reachable from the dry-run entries: %s' % ' -> '.join(cg.path_to(must_not)[-5:]) if must_not in reach else '')


def r3(ctx, cg):
    rule = 'C07.R3'
    lib = ctx.lib
    b = ctx.need_body(rule, 'hasher::open_noatime')
    if b is None:
        return
    n = 0
    for body in [b] + [lib.body(p) for p in lib.closures_of(b.path)]:
        for c in body.calls(r'^std::fs::OpenOptions::open$'):
            n += 1
            methods, unknown, sl = open_mode(b if body is not b else body, c) if body is b else open_mode(body, c)
            if body is not b:
                for pc in b.calls(r'^std::fs::OpenOptions::open$'):
                    m2, _, _ = open_mode(b, pc)
                    methods |= m2
            bad = methods & {'write', 'append', 'create', 'create_new', 'truncate'}
            ctx.check(not bad and 'read' in methods, rule, '%s|open' % body.path, c.where(), 'read-only: builder methods {%s}' % ','.join(sorted(methods)), 'the hasher opens files with %s' % sorted(bad or ['no read(true)']))
    ctx.floor(rule, 'open() calls in open_noatime', n, 2)
    # all file opens on the hashing path go through open_noatime or File::open (read-only)
    reach = cg.reachable(['hasher::FileHasher::hash_file', 'hasher::FileHasher::hash_file_or_log_err'])
    for k in sorted(reach):
        bb_ = cg.bodies[k]
        for c in bb_.calls(r'^std::fs::File::(create|create_new|options)$|^std::fs::write$'):
            if k.startswith('cache::'):
                continue
            ctx.violation(rule, '%s|write-open' % k, c.where(), 'the hashing path opens a file for writing (%s)' % c.path)


def r4(ctx, cg):
    rule = 'C07.R4'
    n = 0
    allowed = {'transform::execute', 'transform::Transform::new'}
    for k, b in cg.bodies.items():
        if re.search(r'(^|::)tests?(::|$)', b.path):
            continue
        for c in b.calls(r'^std::process::Command::(spawn|output|status)$|^libc::(fork|exec\w*|system|posix_spawn\w*)$|^nix::unistd::(fork|exec\w*)$'):
            n += 1
            ctx.fn(b)
            ctx.check(k in allowed, rule, '%s|%s' % (k, c.path.rsplit('::', 1)[-1]), c.where(), 'the user\'s transform program (documented exception)', 'a process is spawned outside the transform module')
    ctx.floor(rule, 'process spawn sites', n, 2)


def r5(ctx, cg, fl):
    rule = 'C07.R5'
    lib = ctx.lib
    reach = cg.reachable([r for r in GROUP_ROOTS if r in cg.bodies])
    creators = []
    for k, b, c, kind, idx in sink_sites(cg, reach):
        if kind in ('copy', 'create_dir_all', 'create_dir', 'mkfifo', 'File::create', 'write', 'symlink', 'hard_link') and not k.startswith('cache::'):
            i = (idx or [0])[-1]
            labels = fl.labels_of(fl.op_read(k, b, c.args[i]))
            if 'TMP' in labels:
                creators.append((k, b, c, kind, i))
    ctx.floor(rule, 'temporary-creating sinks', len(creators), 3)
    # owners: ADT fields (of ADTs with a Drop impl) whose Drop body removes that very field
    removers = {}
    for k, b in cg.bodies.items():
        if b.impl_trait and b.impl_trait.endswith('Drop') and b.path.endswith('::drop') and not re.search(r'(^|::|<)tests?::', b.path):
            for c in b.calls(r'^std::fs::(remove_file|remove_dir_all|remove_dir)$'):
                for n in closure_of(fl, fl.op_read(k, b, c.args[0]), 'back', 4, within=k):
                    if n[0] == 'F':
                        removers[n] = (b, c)
    for k, b, c, kind, i in creators:
        nodes = fl.op_read(k, b, c.args[i])
        back_n = closure_of(fl, nodes, 'back', 8)
        fwd_n = closure_of(fl, {n for n in back_n if 'TMP' in fl.labels.get(n, ())}, 'fwd', 8)
        owned = [(fnode, db, dc) for fnode, (db, dc) in removers.items() if fnode in back_n or fnode in fwd_n]
        ctx.check(bool(owned), rule, '%s|%s' % (k, kind), c.where(),
                  'temporary owned by %s (removed in %s)' % (', '.join(sorted({fmt_node(o[0]) for o in owned})), ', '.join(sorted({o[1].path for o in owned}))),
                  'a temporary is created whose path is not stored in any field removed by a Drop impl: it would be left behind')
    # the Drop impls remove nothing but what was created under TMP
    for fnode, (db, dc) in sorted(removers.items()):
        labels = fl.labels.get(fnode, set())
        ctx.check('TMP' in labels and 'INPUT' not in labels, rule, '%s|removes-%s' % (db.path, fmt_node(fnode)), dc.where(),
                  'Drop removes %s (origin %s)' % (fmt_node(fnode), sorted(labels)), 'Drop removes %s whose origin is %s' % (fmt_node(fnode), sorted(labels)))


def closure_of(fl, nodes, direction, depth, within=None):
    """bounded forward/backward closure in the flow graph; `within` restricts local nodes to one body"""
    if direction == 'back':
        g = getattr(fl, '_rev', None)
        if g is None:
            g = {}
            for s_, ds in fl.edges.items():
                for d_ in ds:
                    g.setdefault(d_, set()).add(s_)
            fl._rev = g
    else:
        g = fl.edges
    seen = set(nodes)
    frontier = set(nodes)
    for _ in range(depth):
        nxt = set()
        for n in frontier:
            for m in g.get(n, ()):
                if within is not None and m[0] == 'L' and m[1] != within:
                    continue
                nxt.add(m)
        nxt -= seen
        seen |= nxt
        frontier = nxt
    return seen


def shares_source(fl, nodes, fnode, depth=3):
    """is there a node that flows both into the sink argument and into the owner field (bounded backward search)?"""
    rev = getattr(fl, '_rev', None)
    if rev is None:
        rev = {}
        for s, ds in fl.edges.items():
            for d in ds:
                rev.setdefault(d, set()).add(s)
        fl._rev = rev

    def back(ns, depth):
        seen = set(ns)
        frontier = set(ns)
        for _ in range(depth):
            nxt = set()
            for n in frontier:
                nxt |= rev.get(n, set())
            nxt -= seen
            seen |= nxt
            frontier = nxt
        return seen
    a = back(nodes, 6)
    b = back([fnode], 6)
    common = {n for n in a & b if 'TMP' in fl.labels.get(n, ()) and n[0] == 'L'}
    return bool(common)


def r6(ctx):
    rule = 'C07.R6'
    bn = ctx.bin
    b = bn.body('run_dedupe') if bn else None
    if b is None:
        ctx.missing(rule, 'fn run_dedupe (binary)')
        return
    ctx.fn(b)
    rs = b.calls(r'(^|::)run_script$')
    ls = b.calls(r'(^|::)log_script$')
    if not ctx.floor(rule, 'run_script call in run_dedupe', len(rs), 1, b.where()) or not ctx.floor(rule, 'log_script call in run_dedupe', len(ls), 1, b.where()):
        return
    ok_run = ok_log = False
    from ..analysis import direct_field
    for d in b.dominators()[rs[0].bb] | b.dominators()[ls[0].bb]:
        t = b.blocks[d]['term']
        if t['k'] == 'switch':
            df = direct_field(b, t['op'])
            if df and df[0] == 'dry_run':
                tt, ft = switch_targets_bool(t)
                dry_side, real_side = (ft, tt) if df[2] else (tt, ft)
                if b.dominates(real_side, rs[0].bb) and not b.dominates(dry_side, rs[0].bb):
                    ok_run = True
                if b.dominates(dry_side, ls[0].bb):
                    ok_log = True
    ctx.check(ok_run, rule, 'bin::run_dedupe|run_script-only-when-not-dry', rs[0].where(), 'run_script is dominated by the dry_run == false edge', 'run_script can run although --dry-run is set')
    ctx.check(ok_log, rule, 'bin::run_dedupe|log_script-when-dry', ls[0].where(), 'log_script is on the dry_run == true edge', 'log_script is not on the dry-run edge')
    # nothing mutating happens in run_dedupe before that switch
    cg = CallGraph([ctx.lib, bn])
    for c in b.calls():
        tk = cg.target_of(c)
        if tk and tk not in ('dedupe::run_script',) and c.bb != rs[0].bb:
            if cg.may_mutate(tk) and tk not in ('bin::get_output_writer',):
                only_create = all(kind in ('File::create',) or (kind == 'OpenOptions::open') for k2 in cg.reachable([tk]) for (_, kind, _) in cg.sinks_in(k2) if not _.f.get('local')) if False else False
                sinks = sorted({kind for k2 in cg.reachable([tk]) for (cc, kind, _) in cg.sinks_in(k2) if not cc.f.get('local')})
                # read-only opens are not mutations
                real = [s for s in sinks if s != 'OpenOptions::open']
                ctx.check(not real, rule, 'bin::run_dedupe|callee-%s' % tk, c.where(), '%s mutates nothing' % tk, '%s (called regardless of --dry-run) can reach %s' % (tk, real))


def r7(ctx):
    """the private-copy default: $IN is the scanned file itself only under --no-copy"""
    rule = 'C07.R7'
    lib = ctx.lib
    from ..analysis import direct_field, aggregates, field_writes, direct_def
    sites = []
    for p, b in lib.bodies.items():
        if p.startswith('transform::') and '::test' not in p:
            for bi, s in aggregates(b, 'transform::Input'):
                sites.append((b, bi, s))
    named = [(b, bi, s) for b, bi, s in sites if s['rv']['variant'] == 'Named']
    copied = [(b, bi, s) for b, bi, s in sites if s['rv']['variant'] == 'Copied']
    if not ctx.floor(rule, 'Input::Named / Input::Copied constructions', min(len(named), len(copied)), 1):
        return
    for b, bi, s in named + copied:
        want_copy = s['rv']['variant'] == 'Copied'
        ctx.fn(b)
        # every field-guard that dominates this construction
        guards = []
        for d in b.dominators()[bi]:
            t = b.blocks[d]['term']
            if t['k'] == 'switch':
                df = direct_field(b, t['op'])
                if df and df[1].endswith('Transform'):
                    tt, ft = switch_targets_bool(t)
                    side = True if b.dominates(tt, bi) else (False if b.dominates(ft, bi) else None)
                    if side is not None:
                        guards.append((df[0], side != df[2]))
        key = '%s|Input::%s' % (b.path, s['rv']['variant'])
        if want_copy:
            ok = ('copy', True) in guards
            extra = [g for g in guards if g[0] != 'copy']
            ctx.check(ok and not extra, rule, key, b.where(s['line']), 'the private copy is used whenever `copy` is set (guards: %s)' % guards,
                      'the private copy of $IN is additionally conditioned on %s: in the other cases the transform program receives the scanned file itself although --no-copy was not given' % (extra or guards))
        else:
            ok = ('copy', False) in guards
            ctx.check(ok, rule, key, b.where(s['line']), 'the original path is handed to the program only when `copy` is false (guards: %s)' % guards,
                      'Input::Named(original) is reachable while `copy` is true (guards: %s): the transform program works on the scanned file itself without --no-copy' % guards)
    # copy is cleared only under no_copy
    n = 0
    for u, tag in ((lib, ''),):
        for b in u.bodies.values():
            if '::test' in b.path or b.derived:
                continue
            for bi, s in field_writes(b, 'copy', 'Transform'):
                n += 1
                v = const_bool(s['rv'].get('op', {})) if s['rv']['k'] == 'use' else None
                g = False
                for d in b.dominators()[bi]:
                    t = b.blocks[d]['term']
                    if t['k'] == 'switch':
                        df = direct_field(b, t['op'])
                        if df and df[0] == 'no_copy':
                            tt, ft = switch_targets_bool(t)
                            g = b.dominates(tt if not df[2] else ft, bi)
                ctx.check(v is False and g, rule, '%s|copy-cleared' % b.path, b.where(s['line']), '`copy = false` only under --no-copy', '`copy` is written (%s) outside the --no-copy branch' % v)
    tn = lib.body('transform::Transform::new')
    if tn is not None:
        ag = aggregates(tn, 'transform::Transform')
        if ag:
            sl = backslice(tn, [agg_field(ag[0][1], 'copy')])
            ok = any(tn.local_name(l) == 'has_in' for l in sl.locals)
            ctx.check(ok, rule, tn.path + '|copy-default', tn.where(ag[0][1]['line']), 'copy defaults to "$IN is used"', 'the default of `copy` is not derived from the use of $IN')

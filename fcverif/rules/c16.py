"""C16 - globs match as documented and directory pruning is conservative."""
import re
from . import register
from ..analysis import (backslice, comparisons, closure_creation, forward_locals, slice_const_values, direct_def, switch_targets_bool,
                        const_bool, count_nots, direct_field)
from ..units import unit_of, chars_take_sinks, str_index_sinks
from ..facts import const_val, op_const, op_local
from .c17 import unesc, cvals

DOC = {
    'explanation': 'The language-level claim (all globs x all paths) is not decidable here. Decided clauses on the partial-match machinery that prunes directories: character '
                   'counts are never mixed with byte lengths in regex.rs (R1); the escape state of the fixed-prefix scanner is one-shot (R2); every regex operator the glob '
                   'translator can emit begins with a character in the scanner\'s stop set, and ordinary characters are escaped (R3); case folding is applied to the prefix '
                   'iff it is applied to the candidate (R4).',
    'rules': {
        'C16.R15': 'a malformed pattern is reported, not a panic: both compilations in Pattern::regex_with (anchored `^re$` and prefix `^re`) have their error matched - the second one is the only one that notices a backslash at the end of the expression',
        'C16.R14': 'when the partial match is decided by an automaton (regex-automata lazy DFA): it is built in Regex::new from the same expression and with the same options (case, dot-matches-newline) as the regex that decides the full match; it is started anchored; the bytes of the candidate are fed from its beginning, in order (stopping early is allowed, skipping is not); `false` is returned only from the dead state (no continuation can match) and every undecidable situation - no automaton, cache error, quit state - answers `true`',
        'C16.R1': 'regex.rs: Chars::take(n) never receives a byte length; no string is sliced by a character count',
        'C16.R2': 'get_fixed_prefix: the escape flag set on a backslash is cleared when the next character is consumed',
        'C16.R3': 'every string fragment glob_to_regex emits for an operator starts with a character of the stop set (magic_chars + {?,*}); literal characters go through escape()',
        'C16.R4': 'the fixed prefix is lower-cased iff is_partial_match lower-cases the candidate (both controlled by case_insensitive)',
        'C16.R6': 'Pattern::regex_with anchors the full-match regex at both ends (^...$) and the prefix regex at the start (^...); matches / matches_partially use the anchored one, matches_prefix the prefix one',
        'C16.R13': 'the characters between `[` and `]` of a glob are translated, not copied, into the regex class: the closures that emit `[..]` / `[^..]` pass the characters through an escaping function that knows the characters a regex class treats specially (`[`, `&`, `~`, `^`, `\\`, `--`)',
        'C16.R12': 'get_fixed_prefix: every quantifier that can make the preceding character optional - `?`, `*` and a counted repetition `{` - removes that character from the fixed prefix before stopping',
        'C16.R11': 'case folding survives pattern composition: a Pattern built from other Patterns (base directory + relative pattern, impl Add) is compiled with a case option derived from its operands, not with the defaults',
        'C16.R10': '`**` crosses every character a path can contain: the fragment emitted for `**` is `.*`, so the regex must be built with dot_matches_new_line(true) (or the fragment must carry its own (?s) flag); `*` and `?` are negated classes and match a newline anyway',
        'C16.R9': 'regex source text is edited at its end (anchor stripping, suffix tests) only with the escape state known: a trailing metacharacter is removed / recognised only after counting the backslashes before it (pattern.rs: regex_with, matches_subtree)',
        'C16.R8': 'the exclude-side pruning predicate of matches_dir holds for the whole subtree (re-evaluates C09.R9)',
        'C16.R7': 'glob_to_regex: inside a bracket group the literal-character parser refuses exactly the delimiters of that group (open tag, separator, close tag taken from the group\'s own parser), no more and no fewer; at top level it refuses nothing; one such arm per Scope variant',
        'C16.R5': 'the glob translator joins every parsed token and every alternative: no element-dropping or reordering adaptor (filter, skip, take, dedup, unique, retain, sort, ...) between the parser and the joined regex',
    },
    'not_decided': 'the glob semantics themselves; the regex crate; conservativeness for every glob/path pair (needs bounded-exhaustive testing)',
    'assumptions': ['false positives of the partial match are harmless (documented in regex.rs)'],
}


@register('C16', DOC)
def run(ctx):
    lib = ctx.lib
    auto = automaton_shape(lib)
    r1(ctx, lib, floor=0 if auto else 2)
    if auto:
        # the fixed-prefix text and everything that had to agree with it (escape flag, stop set, case folding of both sides, optional makers) is gone
        m_ = automaton_body(lib)
        for rid in ('C16.R2', 'C16.R12'):
            ctx.ok(rid, 'regex::Regex::is_partial_match|automaton', m_.where(), 'not applicable: there is no fixed-prefix scanner, the partial match is decided by the automaton of the expression (C16.R14)')
        r14(ctx, lib)
    else:
        r2(ctx, lib)
    r3(ctx, lib, auto)
    r4(ctx, lib, auto)
    r5(ctx, lib)
    r6(ctx, lib)
    r7(ctx, lib)
    from . import c09
    c09.r9(ctx, 'C16.R8')
    r9(ctx, lib)
    r10(ctx, lib)
    r11(ctx, lib)
    if not auto:
        r12(ctx, lib)
    r13(ctx, lib)
    r15(ctx, lib)
    if ctx.tier == 'thorough' and not getattr(ctx, 'sibling', None):
        from .. import sweep
        sweep.units(ctx, 'C16.R1')


def r1(ctx, lib, floor=2):
    rule = 'C16.R1'
    n = 0
    for b in lib.bodies.values():
        if not b.file.endswith(('regex.rs', 'pattern.rs', 'selector.rs')) or '::test' in b.path:
            continue
        for c, o in chars_take_sinks(b):
            n += 1
            ctx.fn(b)
            u, _ = unit_of(b, o)
            key = '%s|%s' % (b.path, c.path.rsplit('::', 1)[-1])
            ctx.check(u not in ('BYTES', 'MIXED'), rule, key, c.where(), 'chars().%s(n): n is a %s' % (c.path.rsplit('::', 1)[-1], u or 'unit-neutral value'),
                      'chars().%s(n) is given a *byte* length (from str::len): with non-ASCII text more characters are taken than intended - the candidate is longer than the prefix and a directory that could contain matches is pruned' % c.path.rsplit('::', 1)[-1])
        for c, ops in str_index_sinks(b):
            for o in ops:
                u, cs = unit_of(b, o)
                n += 1
                ctx.check(u not in ('CHARS', 'MIXED'), rule, '%s|slice' % b.path, c.where(), 'string sliced by %s' % (u or 'constant'), 'string sliced by a character count')
    ctx.floor(rule, 'Chars::take / slicing sites in regex.rs, pattern.rs, selector.rs', n, floor)
    if floor == 0 and n == 0:
        ctx.ok(rule, 'regex.rs|no-sites', '-', 'no Chars::take / string slicing left in regex.rs, pattern.rs, selector.rs')


def r2(ctx, lib):
    rule = 'C16.R2'
    b = ctx.need_body(rule, 'regex::Regex::get_fixed_prefix')
    if b is None:
        return
    esc_l = [i for i, l in enumerate(b.locals) if l['name'] == 'escape' and l['ty'] == 'bool']
    if not esc_l:
        # no flag at all (e.g. rewritten as a state machine / peekable): nothing to check
        ctx.note(rule, b.where(), 'no `escape` flag in get_fixed_prefix (different scanner structure)')
        ctx.ok(rule, b.path + '|no-flag', b.where(), 'the scanner keeps no escape flag')
        return
    e = esc_l[0]
    nx = b.calls(r'Iterator>::next$')
    push = b.calls(r'String::push$')
    if not nx or not push:
        ctx.missing(rule, 'loop / push in get_fixed_prefix', b.where())
        return
    head = nx[0].bb
    sets_true = [bi for bi, blk in enumerate(b.blocks) for s in blk['stmts'] if s['p'][0] == e and not s['p'][1] and const_bool(s['rv'].get('op', {})) is True and not blk['cleanup']]
    sets_false_loop = [bi for bi, blk in enumerate(b.blocks) for s in blk['stmts'] if s['p'][0] == e and not s['p'][1] and const_bool(s['rv'].get('op', {})) is False and bi in b.reachable(head) and head in b.reachable(bi) and not blk['cleanup']]
    in_loop_true = [x for x in sets_true if head in b.reachable(x)]
    if not in_loop_true:
        ctx.ok(rule, b.path + '|never-set', b.where(), 'the flag is never set inside the loop')
        return
    # every path from the block that consumes a character (push) back to the loop head clears the flag
    ok = True
    for p in push:
        if head not in b.reachable(p.bb):
            continue
        if head in b.reachable(p.bb, avoid=sets_false_loop) and p.bb not in sets_false_loop:
            # is the clearing in the same block as the push (before/after it)?
            ok = False
    # also: the block that sets the flag must not itself fall into a clearing (set then immediately clear = never escaped)
    ctx.check(ok and bool(sets_false_loop), rule, b.path + '|one-shot', b.where(b.blocks[in_loop_true[0]]['term']['line']),
              'the escape flag is cleared on every path that consumes the following character',
              'the escape flag is set on a backslash and never cleared: after the first escaped character every later regex operator is taken as literal text, '
              'the fixed prefix swallows wildcards (e.g. `1\\.2/.*/f` -> prefix "1.2/.*/f") and directories that contain matches are pruned')


def automaton_shape(lib):
    """partial matching is decided by feeding the candidate to an automaton of the expression (no fixed-prefix text)"""
    return automaton_body(lib) is not None and lib.body('regex::Regex::get_fixed_prefix') is None


def automaton_body(lib):
    """the method of regex::Regex that steps the automaton: is_partial_match itself or the helper it delegates to"""
    m = lib.body('regex::Regex::is_partial_match')
    if m is None:
        return None
    if m.calls(r'dfa::DFA::next_state$'):
        return m
    for k in m.calls(r'^regex::Regex::\w+$'):
        hb = lib.body(k.path)
        if hb is not None and hb.calls(r'dfa::DFA::next_state$'):
            return hb
    return None


def r14(ctx, lib):
    """Partial match by automaton: same expression and options as the matcher, anchored, every byte fed, `false` only in the dead state."""
    rule = 'C16.R14'
    n = ctx.need_body(rule, 'regex::Regex::new')
    pm = ctx.need_body(rule, 'regex::Regex::is_partial_match')
    m = automaton_body(lib)
    if n is None or m is None or pm is None:
        return
    P = m.path
    # (a) the automaton is built from the same expression and the same options as the regex that decides the full match
    bd = n.calls(r'dfa::Builder::build$|dfa::DFA::new$')
    rb = n.calls(r'RegexBuilder::new$')
    if ctx.floor(rule, 'automaton / regex builders in Regex::new', min(len(bd), len(rb)), 1, n.where()):
        same_re = backslice(n, [bd[0].args[-1]]).params == backslice(n, [rb[0].args[0]]).params == {1}
        ctx.check(same_re, rule, n.path + '|same-expression', bd[0].where(), 'the automaton is built from the expression the regex is built from', 'the automaton and the regex are built from different expressions')
        opts = {}
        for side, rx in (('regex', r'RegexBuilder::(case_insensitive|dot_matches_new_line|multi_line|unicode|swap_greed|ignore_whitespace|crlf)$'),
                         ('automaton', r'syntax::Config::(case_insensitive|dot_matches_new_line|multi_line|unicode|swap_greed|ignore_whitespace|crlf)$')):
            d = {}
            for c in n.calls(rx):
                a = c.args[1]
                sl = backslice(n, [a])
                d[c.path.rsplit('::', 1)[-1]] = ('param:%s' % sorted(n.local_name(p_) for p_ in sl.params)) if sl.params else str(const_bool(a))
            opts[side] = d
        ctx.check(opts['regex'] == opts['automaton'] and bool(opts['regex']), rule, n.path + '|same-options', bd[0].where(), 'both are configured alike (%s)' % opts['regex'],
                  'the regex and the automaton are configured differently (%s vs %s): a candidate the automaton rejects can be the beginning of a path the regex matches (e.g. only one of them folds the '
                  'case, or `.` crosses a newline in only one of them), and the directory is pruned' % (opts['regex'], opts['automaton']))
    # (b) anchored search over the whole candidate
    anch = [st for blk in m.blocks for st in blk['stmts'] if st['rv']['k'] == 'agg' and st['rv'].get('adt', '').endswith('regex_automata::Anchored')]
    ctx.check(any(st['rv'].get('variant') == 'Yes' for st in anch) and all(st['rv'].get('variant') == 'Yes' for st in anch), rule, P + '|anchored', m.where(), 'the automaton is started anchored at the beginning of the candidate',
              'the automaton is not started anchored: it would look for the expression anywhere in the candidate')
    nx = m.calls(r'dfa::DFA::next_state$')
    it = m.calls(r'str::<impl str>::as_bytes$|str::<impl str>::bytes$')
    # (feeding only a beginning of the candidate is sound - the answer gets more conservative; feeding anything that is not a prefix of it is not)
    lim = m.calls(r'Iterator::(skip|step_by|skip_while|filter|filter_map|rev|map)$|slice.*::(split_at|last|split_off)$')
    if it:
        fed = bool(nx) and 2 in backslice(m, [it[0].args[0]]).params and any(k.bb == it[0].bb for k in backslice(m, [nx[0].args[-1]]).calls) and not lim
    else:
        # the candidate arrives as bytes already (&[u8] parameter): the byte handed to next_state comes from an iteration over that parameter
        fed = bool(nx) and 2 in backslice(m, [nx[0].args[-1]]).params and 'u8' in m.local_ty(2) and not lim
        pm_it = pm.calls(r'str::<impl str>::as_bytes$')
        fed = fed and (m is pm or (bool(pm_it) and 2 in backslice(pm, [pm_it[0].args[0]]).params))
    ctx.check(fed, rule, P + '|every-byte-fed', (nx[0].where() if nx else m.where()), 'the bytes of the candidate are fed to the automaton from the beginning, in order', 'what is fed to the automaton is not a prefix of the candidate (bytes skipped, filtered, mapped or reversed)')
    # (c) `false` only in the dead state; everything that cannot be decided answers `true`
    falses = [(bi, st) for bi, blk in enumerate(m.blocks) if not blk['cleanup'] for st in blk['stmts'] if st['p'][0] == 0 and not st['p'][1] and const_bool(st['rv'].get('op', {})) is False]
    optional = 'Option<bool>' in m.local_ty(0).replace('std::option::', '')
    if optional:
        # the helper answers Some(false) / Some(true) / None (undecidable); is_partial_match must turn None into `true`
        falses = [(bi, st) for bi, blk in enumerate(m.blocks) if not blk['cleanup'] for st in blk['stmts'] if st['p'][0] == 0 and not st['p'][1]
                  and st['rv']['k'] == 'agg' and st['rv'].get('variant') == 'Some' and st['rv']['ops'] and const_bool(st['rv']['ops'][0]) is False]
        dflt = [c for c in pm.calls(r'Option::<T>::unwrap_or$|Option<.*>::unwrap_or$') if const_bool(c.args[1]) is True]
        if not dflt:
            # the same three-way answer spelled `x != Some(false)` / `!matches!(x, Some(false))` / `x.map_or(true, ..)`: decided on the table of
            # the returned bool over "the helper said Some(false)"
            for cmp_ in comparisons(pm):
                if cmp_.op in ('==', '!='):
                    vals_ = [str(v) for a_ in (cmp_.a, cmp_.b) for v in slice_const_values(lib, backslice(pm, [a_]))]
                    somes_ = [st for blk in pm.blocks for st in blk['stmts'] if st['rv']['k'] == 'agg' and st['rv'].get('variant') == 'Some' and st['rv']['ops'] and const_bool(st['rv']['ops'][0]) is False]
                    if somes_ or any('Some' in v and 'false' in v for v in vals_) or any(v in ('option(false)',) for v in vals_):
                        from ..analysis import truth_table, table_equals
                        tt_ = truth_table(pm, {'is_some_false': cmp_.bb})
                        okt = table_equals(tt_, (lambda a: not a['is_some_false']) if cmp_.op == '==' else (lambda a: a['is_some_false']))[0]
                        if okt:
                            dflt = [cmp_]
        ctx.check(bool(dflt), rule, pm.path + '|undecidable-is-true', pm.where(), 'is_partial_match answers `true` when the automaton cannot decide (None)',
                  'is_partial_match does not turn "cannot be determined" into `true`: a directory that may contain matches is pruned whenever the automaton gives up')
    dead = m.calls(r'LazyStateID::is_dead$|StateID::is_dead$|is_dead_state$')
    ok = bool(dead) and bool(falses)
    for bi, st in falses:
        good = False
        for dc in dead:
            for (bbx, idx, what) in m.operand_uses(dc.dest[0]):
                if what[0] == 'switch':
                    tt, ft = switch_targets_bool(what[1])
                    if tt is not None and (tt == bi or m.dominates(tt, bi)) and not m.dominates(ft, bi):
                        good = True
        ok = ok and good
    nonconst = [st for blk in m.blocks if not blk['cleanup'] for st in blk['stmts'] if st['p'][0] == 0 and not st['p'][1] and const_bool(st['rv'].get('op', {})) is None] if not optional else []
    ctx.check(ok and not nonconst, rule, P + '|false-only-when-dead', (m.where(falses[0][1]['line']) if falses else m.where()), '`false` is returned only from the dead state of the automaton; a missing automaton, a full cache or a quit state answer `true`',
              'is_partial_match can answer `false` without the automaton being in its dead state: a directory that may contain matching paths is pruned')
    # the state that is tested is the one the last byte led to
    if dead and nx:
        ctx.check(nx[0].dest[0] in backslice(m, [dead[0].args[0]]).locals or any(k.bb == nx[0].bb for k in backslice(m, [dead[0].args[0]]).calls), rule, P + '|state-tested', dead[0].where(),
                  'the tested state is the successor state', 'the dead-state test is not applied to the state reached by next_state')


def r15(ctx, lib):
    """A malformed expression is an error message, never a panic: every compilation of user-supplied text in regex_with has its Err matched."""
    rule = 'C16.R15'
    b = ctx.need_body(rule, 'pattern::Pattern::regex_with')
    if b is None:
        return
    from .common import err_handling
    comp = b.calls(r'^regex::Regex::new$')
    if not ctx.floor(rule, 'compilations in Pattern::regex_with', len(comp), 2, b.where()):
        return
    for i, c in enumerate(comp):
        cat, det = err_handling(b, c)
        ctx.check(cat not in ('PANICS', 'DISCARDED'), rule, '%s|compilation-%d-checked' % (b.path, i), c.where(), 'the result of this compilation is examined (%s)' % cat,
                  'the result of this compilation of the user\'s expression is unwrapped: `^<re>$` and `^<re>` are compiled, only the first is checked - but a backslash at the end of <re> escapes the '
                  'appended `$`, so `^a\\$` compiles and `^a\\` does not: `--regex --name "a\\"` panics (exit 101) instead of reporting an invalid pattern')


def r3(ctx, lib, auto=False):
    rule = 'C16.R3'
    g = ctx.need_body(rule, 'pattern::Pattern::glob_to_regex')
    if auto:
        if g is not None:
            esc_calls = sum(len(lib.body(cp).calls(r'regex::escape$|regex_syntax::escape$')) for cp in lib.closures_of(g.path)) + len(g.calls(r'regex::escape$'))
            ctx.check(esc_calls >= 2, rule, g.path + '|literals-escaped', g.where(), 'literal and escaped characters pass through regex::escape (%d sites)' % esc_calls, 'literal characters are not escaped')
        return
    f = ctx.need_body(rule, 'regex::Regex::get_fixed_prefix')
    if g is None or f is None:
        return
    # stop set: char arrays in get_fixed_prefix
    stop = set()
    for blk in f.blocks:
        for s in blk['stmts']:
            if s['rv']['k'] == 'agg' and s['rv'].get('ak') == 'array':
                for o in s['rv']['ops']:
                    m = re.match(r"^(?:const )?'(.*)'$", const_val(o) or '', re.S)
                    if m:
                        stop.add(unesc(m.group(1)))
    for pb in [lib.body(p) for p in lib.bodies if p.startswith('regex::Regex::get_fixed_prefix::promoted')]:
        for blk in pb.blocks:
            for s in blk['stmts']:
                if s['rv']['k'] == 'agg' and s['rv'].get('ak') == 'array':
                    for o in s['rv']['ops']:
                        m = re.match(r"^(?:const )?'(.*)'$", const_val(o) or '', re.S)
                        if m:
                            stop.add(unesc(m.group(1)))
    ctx.floor(rule, 'stop set of the prefix scanner', len(stop), 10, f.where())
    # emitted fragments: first string of each output in the map closures
    emitted = []
    for cp in lib.closures_of(g.path):
        cb = lib.body(cp)
        for c in cb.calls(r'glob_to_regex::mk_string$'):
            vs = cvals(lib, cb, c.args[1])
            for v in vs:
                emitted.append((cb, c, v.strip('"')))
        for c in cb.calls(r'ToString>::to_string$|String as std::convert::From<&str>>::from$|str::<impl str>::to_owned$'):
            vs = cvals(lib, cb, c.args[0])
            tys = c.t.get('argtys') or ['']
            if 'str' in tys[0]:
                for v in vs:
                    if v.startswith('"'):
                        emitted.append((cb, c, v.strip('"')))
    ctx.floor(rule, 'operator fragments emitted by glob_to_regex', len(emitted), 8, g.where())
    for cb, c, frag in emitted:
        first = frag[:1]
        ctx.check(first in stop, rule, '%s|fragment=%s' % (cb.path, frag), c.where(), 'emitted operator %r starts with a stop character' % frag,
                  'emitted operator %r starts with %r, which the prefix scanner does not stop at: it would be taken as literal text of the fixed prefix' % (frag, first))
    # literal characters are escaped
    esc_calls = sum(len(lib.body(cp).calls(r'regex::escape$|regex_syntax::escape$')) for cp in lib.closures_of(g.path)) + len(g.calls(r'regex::escape$'))
    ctx.check(esc_calls >= 2, rule, g.path + '|literals-escaped', g.where(), 'literal and escaped characters pass through regex::escape (%d sites)' % esc_calls, 'literal characters are not escaped')
    # every character regex::escape can prefix with a backslash is handled by the scanner through the escape flag; the scanner must treat backslash specially
    bs = any("'\\\\'" in (const_val(x) or '') for cmp in comparisons(f) for x in (cmp.a, cmp.b))
    ctx.check(bs, rule, f.path + '|backslash', f.where(), 'the scanner recognises the backslash', 'the scanner does not treat the backslash specially')


def r4(ctx, lib, auto=False):
    rule = 'C16.R4'
    n = ctx.need_body(rule, 'regex::Regex::new')
    m = ctx.need_body(rule, 'regex::Regex::is_partial_match')
    if n is None or m is None:
        return
    if auto:
        # case folding of the candidate is the automaton's business (C16.R14 same-options); the builder of the regex still gets the flag
        ci = n.calls(r'RegexBuilder::case_insensitive$')
        ok = bool(ci) and any(n.local_name(l) == 'case_insensitive' for l in backslice(n, [ci[0].args[1]]).locals)
        ctx.check(ok, rule, n.path + '|builder-flag', n.where(), 'the regex itself is built with the same case flag', 'the regex is not built with the case flag')
        return
    def lower_guard(b, flag_is_param):
        lc = b.calls(r'str::<impl str>::to_lowercase$')
        if not lc:
            return None
        for d in b.dominators()[lc[0].bb]:
            t = b.blocks[d]['term']
            if t['k'] == 'switch':
                if flag_is_param:
                    l = op_local(t['op'])
                    dd = direct_def(b, t['op'])
                    if (l is not None and b.local_name(l) == 'case_insensitive') or (dd[0] == 'local' and b.local_name(dd[1]) == 'case_insensitive'):
                        tt, ft = switch_targets_bool(t)
                        return b.dominates(tt, lc[0].bb)
                else:
                    df = direct_field(b, t['op'])
                    if df and df[0] == 'case_insensitive':
                        tt, ft = switch_targets_bool(t)
                        return b.dominates(tt if not df[2] else ft, lc[0].bb)
        return False
    a = lower_guard(n, True)
    c = lower_guard(m, False)
    ctx.check(a is True and c is True, rule, 'regex::Regex|case-folding', n.where(), 'prefix and candidate are lower-cased under the same flag', 'case folding is asymmetric (prefix: %s, candidate: %s)' % (a, c))
    # the candidate compared is a prefix test in the right direction: fixed_prefix.starts_with(candidate)
    sw = m.calls(r'str::<impl str>::starts_with$')
    ok = bool(sw) and 'fixed_prefix' in backslice(m, [sw[0].args[0]]).field_names() and 2 in backslice(m, [sw[0].args[1]]).params
    ctx.check(ok, rule, m.path + '|direction', m.where(), 'fixed_prefix.starts_with(truncated candidate)', 'the partial match is not `fixed_prefix starts with the candidate`')
    # builder gets the same flag
    ci = n.calls(r'RegexBuilder::case_insensitive$')
    ok = bool(ci) and any(n.local_name(l) == 'case_insensitive' for l in backslice(n, [ci[0].args[1]]).locals)
    ctx.check(ok, rule, n.path + '|builder-flag', n.where(), 'the regex itself is built with the same case flag', 'the regex is not built with the case flag')


def r5(ctx, lib):
    rule = 'C16.R5'
    bodies = [b for p, b in lib.bodies.items() if p.startswith('pattern::Pattern::glob_to_regex') and b.kind != 'promoted']
    if not ctx.floor(rule, 'bodies of the glob translator (fn, nested fn, closures)', len(bodies), 10):
        return
    joins = [c for b in bodies for c in b.calls(r'::join$|::concat$')]
    ctx.floor(rule, 'join sites in the glob translator (alternatives, token sequence)', len(joins), 2)
    bad = []
    for b in bodies:
        for c in b.calls(r'Iterator::(filter|filter_map|skip|take|step_by|skip_while|take_while|rev|flat_map)$|Itertools::(dedup|unique|sorted)\w*$|Vec<.*>::(retain|dedup\w*|truncate|pop|remove|swap_remove|drain|sort\w*)$|Vec::<T, A>::(retain|dedup\w*|truncate|pop|remove|swap_remove|drain|sort\w*)$|slice::<impl \[T\]>::sort'):
            bad.append((b, c))
    for b, c in bad:
        ctx.violation(rule, '%s|%s' % (b.path, c.path.rsplit('::', 1)[-1]), c.where(), 'the translator applies %s to the parsed pieces: alternatives or tokens can be dropped or reordered (e.g. the empty alternative of `{,.bak}`), which changes the language of the glob' % c.path.rsplit('::', 1)[-1])
    if not bad:
        ctx.ok(rule, 'pattern::Pattern::glob_to_regex|no-dropping', bodies[0].where(), 'all %d join sites receive the parsed pieces unfiltered (%d bodies scanned)' % (len(joins), len(bodies)))


def r6(ctx, lib):
    rule = 'C16.R6'
    b = ctx.need_body(rule, 'pattern::Pattern::regex_with')
    if b is None:
        return
    news = b.calls(r'regex::Regex::new$')
    if not ctx.floor(rule, 'Regex::new calls in regex_with', len(news), 2, b.where()):
        return
    ag = [s_ for bi, s_ in __import__('fcverif.analysis', fromlist=['aggregates']).aggregates(b, 'pattern::Pattern')]
    if not ag:
        ctx.missing(rule, 'Pattern construction in regex_with', b.where())
        return
    from ..analysis import agg_field
    def origin_call(op, hops=12):
        # follow moves field-sensitively: `(_t.1 as Ok).0` of a tuple leads to the 2nd operand of the tuple aggregate, not to both
        want_idx = []
        cur = op
        for _ in range(hops):
            pl = (cur.get('m') or cur.get('c')) if isinstance(cur, dict) else None
            if pl is None:
                return None
            l, proj = pl[0], pl[1]
            fidx = [int(e[2]) for e in proj if isinstance(e, list) and e[0] == 'F' and str(e[2]).isdigit()]
            # the first numeric field on a tuple local selects the element; a trailing `.0` after a downcast is the payload of Ok/Some
            defs = [(bi, st) for bi, blk in enumerate(b.blocks) for st in blk['stmts'] if st['p'][0] == l and not st['p'][1]]
            calls = [c for c in b.calls() if c.dest and c.dest[0] == l and not c.dest[1]]
            if calls:
                return calls[0]
            if not defs:
                return None
            st = defs[-1][1]
            rv = st['rv']
            if rv['k'] == 'agg' and rv.get('ak') == 'tuple':
                if not fidx:
                    return None
                cur = rv['ops'][fidx[0]]
                continue
            if rv['k'] == 'use':
                cur = rv['op']
                continue
            return None
        return None
    for field, want in (('anchored_regex', ['"^"', '"$"']), ('prefix_regex', ['"^"'])):
        sl = backslice(b, [agg_field(ag[0], field)])
        oc = origin_call(agg_field(ag[0], field))
        src = [oc] if oc is not None and oc.matches(r'regex::Regex::new$') else [c for c in sl.calls if c.matches(r'regex::Regex::new$')]
        vals = []
        if src:
            vals = [v for v in cvals(lib, b, src[0].args[0]) if v in ('"^"', '"$"')]
            if not vals:
                # the same text assembled by `format!("^{grouped}$")`: the literal pieces of the template around the one interpolated value
                for k_ in backslice(b, [src[0].args[0]]).calls:
                    sn_ = k_.t.get('snip') or ''
                    m_ = re.match(r'^format!\("(\^?)\{[^{}]*\}(\$?)"\s*(,.*)?\)$', sn_)
                    if m_ and k_.matches(r'^std::fmt::format$|alloc::fmt::format$'):
                        vals = (['"^"'] if m_.group(1) else []) + (['"$"'] if m_.group(2) else [])
        ok = sorted(set(vals)) == sorted(want)
        ctx.check(ok, rule, '%s|%s' % (b.path, field), (src[0].where() if src else b.where()), '%s = %s + pattern%s' % (field, '^', ' + $' if '"$"' in want else ''),
                  '%s is built with anchors %s, expected %s' % (field, sorted(set(vals)), want))
        # the case flag reaches both
        if src:
            ctx.check('case_insensitive' in backslice(b, [src[0].args[1]]).field_names(), rule, '%s|%s-case' % (b.path, field), src[0].where(), 'built with opts.case_insensitive', 'not built with the case option')
    for fn, fld, meth in (('matches', 'anchored_regex', 'is_match'), ('matches_partially', 'anchored_regex', 'is_partial_match'), ('matches_prefix', 'prefix_regex', 'is_match'), ('matches_path', 'anchored_regex', 'is_match')):
        mb = lib.body('pattern::Pattern::' + fn)
        if mb is None:
            ctx.missing(rule, 'fn Pattern::' + fn)
            continue
        cs = mb.calls(r'regex::Regex::%s$' % meth)
        ok = len(cs) == 1 and fld in backslice(mb, [cs[0].args[0]]).field_names() and cs[0].dest[0] == 0
        ctx.check(ok, rule, mb.path, mb.where(), '%s = %s.%s(..)' % (fn, fld, meth), '%s does not use %s.%s' % (fn, fld, meth))


def _str_lit(v):
    m = re.match(r'^(?:const )?"(.*)"$', v or '', re.S)
    if not m:
        return None
    return re.sub(r"\\(u\{[0-9a-fA-F]+\}|.)", lambda k: unesc('\\' + k.group(1)), m.group(1), flags=re.S)


def r7(ctx, lib):
    """scope/delimiter agreement in the glob parser"""
    rule = 'C16.R7'
    g = ctx.need_body(rule, 'pattern::Pattern::glob_to_regex')
    if g is None:
        return
    bodies = [g] + [lib.body(c) for c in lib.closures_of(g.path)]
    # 1. delimiters per scope, from the group parsers: separated_list0(tag(SEP), |g| glob_to_regex(Scope::X, g)) inside tuple((tag(OPEN), .., tag(CLOSE)))
    delims = {}
    for b in bodies:
        for sl0 in b.calls(r'nom::multi::separated_list[01]$'):
            k, sepc = direct_def(b, sl0.args[0])
            sep = _str_lit(const_val(sepc.args[0])) if k == 'call' and sepc.matches(r'::tag$') and op_const(sepc.args[0]) else None
            scope = None
            cp = lib.closure_of_type(b.local_ty(op_local(sl0.args[1]))) if op_local(sl0.args[1]) is not None else None
            cb = lib.body(cp) if cp else None
            if cb is not None:
                for rc in cb.calls(r'Pattern::glob_to_regex$'):
                    kd = direct_def(cb, rc.args[0])
                    if kd[0] == 'stmt' and kd[1]['rv']['k'] == 'agg':
                        scope = kd[1]['rv'].get('variant')
            if sep is None or scope is None:
                ctx.violation(rule, '%s|group-parser' % b.path, sl0.where(), 'a separated list in the glob parser whose separator tag / recursive scope cannot be read (sep=%r scope=%r)' % (sep, scope))
                continue
            # the tags that sit in the same tuple as the list
            tags = set()
            for blk in b.blocks:
                for st in blk['stmts']:
                    rv = st['rv']
                    if rv['k'] == 'agg' and rv.get('ak') == 'tuple' and any(op_local(o) == sl0.dest[0] for o in rv['ops']):
                        for o in rv['ops']:
                            kk = direct_def(b, o)
                            if kk[0] == 'call' and kk[1].matches(r'::tag$') and op_const(kk[1].args[0]):
                                tags.add(_str_lit(const_val(kk[1].args[0])))
            d = delims.setdefault(scope, set())
            d |= set(sep) | {ch for t in tags if t for ch in t}
    ctx.floor(rule, 'bracket-group parsers (separated lists recursing with a Scope)', len(delims), 2, g.where())
    # 2. refuse sets per scope, from the literal-character parser
    variants = [v['name'] if isinstance(v, dict) else v for v in (lib.adts.get('pattern::Scope', {}).get('variants') or [])]
    if not variants:
        ctx.missing(rule, 'enum pattern::Scope', g.where())
        return

    def scopes_where(op, depth=0):
        """set of Scope variants for which a boolean operand is true, or None when it is not a function of `scope` in a known form"""
        if depth > 6:
            return None
        k = direct_def(g, op)
        if k[0] == 'call' and k[1].matches(r'<pattern::Scope as std::cmp::PartialEq>::(eq|ne)$|^std::cmp::PartialEq::(eq|ne)$') and 'Scope' in g.local_ty(op_local(k[1].args[0]) or 0):
            named = None
            for a in k[1].args:
                for v in cvals(lib, g, a):
                    m = re.search(r'Scope::(\w+)$', v or '')
                    if m:
                        named = m.group(1)
            if named is None:
                return None
            return {named} if k[1].path.endswith('::eq') else set(variants) - {named}
        if k[0] == 'stmt':
            rv = k[1]['rv']
            if rv['k'] == 'un' and rv.get('op') == 'Not':
                x = scopes_where(rv['a'] if 'a' in rv else rv.get('op1'), depth + 1)
                return None if x is None else set(variants) - x
            if rv['k'] == 'bin' and rv.get('op') in ('BitOr', 'BitAnd'):
                x, y = scopes_where(rv['a'], depth + 1), scopes_where(rv['b'], depth + 1)
                if x is None or y is None:
                    return None
                return x | y if rv['op'] == 'BitOr' else x & y
        if k[0] == 'const':
            cb = const_bool({'k': k[1]}) if isinstance(k[1], dict) else None
            if cb is not None:
                return set(variants) if cb else set()
        return None

    refuse = {}
    anyc = set()
    for cond in g.calls(r'nom::combinator::cond$'):
        sc = scopes_where(cond.args[0])
        if sc is None:
            ctx.violation(rule, '%s|cond-not-by-scope' % g.path, cond.where(), 'a conditional literal-character parser whose condition is not a recognised boolean function of `scope` (==, !=, !, |, &): failing closed')
            continue
        kp = direct_def(g, cond.args[1])
        if kp[0] == 'call' and kp[1].matches(r'complete::none_of$') and op_const(kp[1].args[0]):
            for v in sc:
                refuse.setdefault(v, set()).update(_str_lit(const_val(kp[1].args[0])) or '')
        elif kp[0] == 'const' and 'anychar' in str(kp[1]):
            for v in sc:
                refuse.setdefault(v, set())
                anyc.add(v)
        else:
            ctx.violation(rule, '%s|cond-parser' % g.path, cond.where(), 'scopes %s: literal-character parser is neither anychar nor none_of(<constant>)' % sorted(sc))
    for v in anyc:
        refuse[v] = set()
    for v in variants:
        want = delims.get(v, set()) if v != 'TopLevel' else set()
        got = refuse.get(v)
        ctx.check(got is not None and got == want, rule, '%s|refuse-set|%s' % (g.path, v), g.where(),
                  'scope %s: literal characters refused = %s = delimiters of that group' % (v, ''.join(sorted(want)) or 'none'),
                  'scope %s: the literal-character parser refuses %s but the group is delimited by %s: %s' % (
                      v, repr(''.join(sorted(got))) if got is not None else 'nothing (no arm)', repr(''.join(sorted(want))),
                      'a refused non-delimiter cannot appear in the group at all, the group stops parsing and the whole glob silently degrades to a literal' if got and got - want else
                      'an accepted delimiter is swallowed as a literal and the group never closes'))


def r9(ctx, lib):
    """escape-aware edits at the end of regex text"""
    rule = 'C16.R9'
    n = 0
    for fn in ('pattern::Pattern::regex_with', 'pattern::Pattern::matches_subtree'):
        b = ctx.need_body(rule, fn)
        if b is None:
            continue
        bodies = [b] + [lib.body(c) for c in lib.closures_of(b.path)]
        edits = [c for c in b.calls(r'str::<impl str>::(trim_end_matches|trim_right_matches|strip_suffix|ends_with)$') if not c.exp]
        # parity test: a closure comparing a char with a backslash + a remainder by 2 of a count
        has_bs = any("'\\\\'" in (const_val(o) or '') for x in bodies for blk in x.blocks for st in blk['stmts'] for o in ([st['rv'].get('a'), st['rv'].get('b')] if st['rv']['k'] == 'bin' else []) if isinstance(o, dict))
        has_par = any(st['rv']['k'] == 'bin' and st['rv'].get('op') == 'Rem' for x in bodies for blk in x.blocks for st in blk['stmts'])
        for c in edits:
            n += 1
            what = c.path.rsplit('::', 1)[-1]
            ctx.check(has_bs and has_par, rule, '%s|%s' % (fn, what), c.where(), '%s on regex text next to a backslash-parity test' % what,
                      '%s is applied to regex source text without looking at the backslashes before the matched character: for a pattern ending in an escaped metacharacter '
                      '(glob `*a$` -> `[^/]*a\\$`) the `$` of `\\$` is taken for an anchor, the text is left with a dangling backslash and Regex::new(..).unwrap() panics' % what)
    ctx.floor(rule, 'edits at the end of regex text in pattern.rs', n, 2)


def r10(ctx, lib):
    rule = 'C16.R10'
    g = ctx.need_body(rule, 'pattern::Pattern::glob_to_regex')
    rn = ctx.need_body(rule, 'regex::Regex::new')
    if g is None or rn is None:
        return
    frags = []
    for cp in lib.closures_of(g.path):
        cb = lib.body(cp)
        for v in [const_val(o) for blk in cb.blocks for st in blk['stmts'] for o in ([st['rv'].get('op')] if isinstance(st['rv'].get('op'), dict) else [])] + [const_val(a) for c in cb.calls() for a in c.args]:
            if v and re.search(r'\.\*', v):
                frags.append((cb, v))
    if not ctx.floor(rule, 'fragments with `.*` emitted by the glob translator', len(frags), 1, g.where()):
        return
    own_flag = all('(?s' in v for _, v in frags)
    flag = [c for c in rn.calls(r'RegexBuilder::dot_matches_new_line$') if const_bool(c.args[1]) is True]
    ctx.check(own_flag or bool(flag), rule, 'regex::Regex::new|dot-matches-newline', rn.where(), '`.` matches a newline in the regexes built for patterns',
              'the glob translator emits `.*` for `**` but the regex is built without dot_matches_new_line: `**` stops at a newline in a file or directory name, while `*` ([^/]*) crosses it: '
              "`--exclude '**/g'` does not exclude `a\\nb/g`, `--path '**/f'` misses `a\\nb/f`")


def r11(ctx, lib):
    rule = 'C16.R11'
    adds = [b for p_, b in lib.bodies.items() if re.search(r'^<pattern::Pattern as std::ops::Add.*>::add$', p_)]
    if not adds:
        ctx.missing(rule, 'impl Add for Pattern')
        return
    ab = adds[0]
    ctor = ab.calls(r'pattern::Pattern::(regex|regex_with|glob|glob_with|literal)$')
    if not ctx.floor(rule, 'Pattern constructor in Pattern::add', len(ctor), 1, ab.where()):
        return
    c = ctor[0]
    ok = c.path.endswith('_with') and len(c.args) > 1
    if ok:
        sl = backslice(ab, [c.args[1]])
        ok = sl.has_call(r'is_case_insensitive$') or 'case_insensitive' in sl.field_names() and bool(sl.params)
    ctx.check(ok, rule, ab.path + '|case-option-kept', c.where(), 'the concatenated pattern is compiled with the case option of its operands',
              'the concatenated pattern is compiled with %s, i.e. the default (case-sensitive) options: with --ignore-case every relative --path / --exclude pattern, which is concatenated with the '
              'base directory, matches case-sensitively again (`group . -i --path "a/*"` does not select A/x), while absolute patterns and --name fold the case' % c.path.rsplit('::', 1)[-1])


def r12(ctx, lib):
    rule = 'C16.R12'
    b = ctx.need_body(rule, 'regex::Regex::get_fixed_prefix')
    if b is None:
        return
    erase = [c for c in b.calls(r'String::pop$|String::truncate$|Iterator::take$|Chars.*::take$')]
    if not ctx.floor(rule, 'erase of the last prefix character in get_fixed_prefix', len(erase), 1, b.where()):
        return
    # characters under which an erase happens: constants of the comparisons / contains() arrays that dominate an erase
    covered = set()
    for e in erase:
        for d in b.dominators()[e.bb]:
            t = b.blocks[d]['term']
            if t['k'] != 'switch':
                continue
            tt, ft = switch_targets_bool(t)
            if tt is None or not b.dominates(tt, e.bb) or b.dominates(ft, e.bb):
                continue
            for v in slice_const_values(lib, backslice(b, [t['op']])):
                for m in re.finditer(r"'(\\?.)'", v or ''):
                    covered.add(unesc(m.group(1)))
    want = {'?', '*', '{'}
    ctx.check(want <= covered, rule, b.path + '|optional-makers', erase[0].where(), 'the previous character is erased before %s' % sorted(want),
              'the previous character is erased only before %s: a counted repetition `{0,1}` / `{0,}` makes it optional as well, but `{` merely ends the prefix, so with --regex --path "/T/ab{0,1}/.*" '
              'the directory /T/a is pruned although /T/a/f matches' % sorted(covered & want))


def r13(ctx, lib):
    rule = 'C16.R13'
    g = ctx.need_body(rule, 'pattern::Pattern::glob_to_regex')
    if g is None:
        return
    n = 0
    for cp in lib.closures_of(g.path):
        cb = lib.body(cp)
        consts = [const_val(o) or '' for blk in cb.blocks for st in blk['stmts'] for o in ([st['rv'].get('op')] if isinstance(st['rv'].get('op'), dict) else [])] + [const_val(a) or '' for c in cb.calls() for a in c.args]
        opens = [v for v in consts if v.strip('const ').strip('"') in ('[', '[^')]
        if not opens or not any('Vec<char>' in (l.get('ty') or '') for l in cb.raw.get('locals', [])[:cb.argc + 1]):
            continue        # `*` and `?` emit a constant class [^/]; only the closures that receive the parsed characters matter
        n += 1
        raw = cb.calls(r'FromIterator<char>>::from_iter$|Iterator::collect$|Iterator>::collect$')
        esc = [c for c in cb.calls() if c.f.get('local') and lib.body(c.path) is not None]
        knows = False
        for c in esc:
            eb = lib.body(c.path)
            vals = set()
            for blk in eb.blocks:
                t = blk['term']
                if t['k'] == 'switch':
                    vals |= set(t['vals'])
            if {ord('['), ord('&'), ord('~')} <= vals:
                knows = True
        ctx.check(knows and not raw, rule, cp + '|class-contents-escaped', cb.where(), 'the class contents pass an escaping function that handles [ & ~ ^ \\ and --',
                  'the characters of a glob class are collected into the regex class verbatim: the regex crate reads `&&` as intersection, `~~` as symmetric difference, `--` as difference, `\\d` / `\\w` as Perl '
                  'classes and `[` as a nested class, so `--name "[a&&b]"` selects nothing, `[\\d]` selects digits instead of d, and `[[]` is rejected')
    ctx.floor(rule, 'closures emitting a regex character class', n, 2, g.where())
    # the class body is read up to the first `]` that is not escaped: the repeated member parser offers `\` + any character next to none_of("]")
    m = 0
    for x in [g] + [lib.body(cp) for cp in lib.closures_of(g.path)]:
        for c in x.calls(r'multi::many0$'):
            sl = backslice(x, [c.args[0]])
            nn = [k for k in sl.calls if k.matches(r'complete::none_of$')]
            vals = [str(v or '') for v in slice_const_values(lib, sl)]
            if len(nn) != 1 or '"]"' not in vals or any(k.matches(r'multi::many0$|separated_list0$') for k in sl.calls):
                continue        # not the member parser of a class (the token loop contains everything)
            m += 1
            pair = any(v in ('"\\\\"', "'\\\\'") for v in vals) and sl.has_call(r'complete::anychar$|sequence::(tuple|pair|preceded)$')
            pair = pair or any('anychar' in v for v in vals) and any(v in ('"\\\\"', "'\\\\'") for v in vals)
            ctx.check(pair, rule, x.path + '|escape-is-a-member', c.where(), 'inside [...] a backslash and the character after it are read as one member (`\\]` does not close the class)',
                      'the body of a class is read with many0(none_of("]")): the first `]` ends it even after a backslash, although the escape function behind it was written to handle `\\x` - '
                      '`--name "a[\\]x]"` becomes the regex a[\\\\]x\\] and selects `a\\x]` instead of `a]` and `ax`')
    ctx.floor(rule, 'member parsers of glob classes', m, 1, g.where())

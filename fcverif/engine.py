"""Rule context, reporting, evidence, known findings."""
import os, re, sys, json, time, re
from . import extract as X
from .facts import load_unit

VERIF = X.VERIF


class Ctx:
    def __init__(self, prop, tier, units, facts_key):
        self.prop = prop
        self.tier = tier
        self.units = units          # dict name -> Unit ; 'lib', 'bin' always
        self.lib = units['lib']
        self.bin = units.get('bin')
        self.facts_key = facts_key
        self.obligations = []       # dicts: rule, key, where, verdict, detail
        self.notes = []
        self.functions = set()
        self.rules_run = set()
        self.stats = {}

    # ---- reporting
    def _rec(self, verdict, rule, key, where, detail):
        self.rules_run.add(rule)
        self.obligations.append({'rule': rule, 'key': '%s|%s' % (rule, key), 'where': where,
                                 'verdict': verdict, 'detail': detail})

    def ok(self, rule, key, where, detail=''):
        self._rec('OK', rule, key, where, detail)

    def violation(self, rule, key, where, detail=''):
        self._rec('VIOLATION', rule, key, where, detail)

    def check(self, cond, rule, key, where, detail_ok='', detail_bad=None):
        if cond:
            self.ok(rule, key, where, detail_ok)
        else:
            self.violation(rule, key, where, detail_bad if detail_bad is not None else detail_ok)
        return cond

    def advise(self, cond, rule, key, where, detail_ok='', detail_bad=None):
        """a cost clause: the behaviour the property states is the same either way, only the work done differs. It is evaluated and
        reported (ADVISORY line, evidence sample), but it is never a violation: the property holds on code that fails it."""
        if cond:
            self.ok(rule, key, where, detail_ok)
        else:
            self._rec('ADVISORY', rule, key, where, detail_bad if detail_bad is not None else detail_ok)
        return cond

    def missing(self, rule, what, where='-'):
        """an anchor the rule needs cannot be found: fail closed"""
        self._rec('VIOLATION', rule, 'anchor-missing:%s' % what, where,
                  'anchor missing: %s (the rule cannot be evaluated; failing closed)' % what)

    def floor(self, rule, what, count, floor, where='-'):
        if count < floor:
            self._rec('VIOLATION', rule, 'floor:%s' % what, where,
                      'instance count %d below the floor %d counted on the pinned tree: %s' % (count, floor, what))
            return False
        self.stats['%s:%s' % (rule, what)] = count
        return True

    def note(self, rule, where, text):
        self.notes.append({'rule': rule, 'where': where, 'text': text})

    def fn(self, *bodies):
        for b in bodies:
            if b is not None:
                self.functions.add(b.path if hasattr(b, 'path') else str(b))

    # ---- anchors
    def need_body(self, rule, path, unit=None):
        u = unit or self.lib
        b = u.body(path)
        if b is None:
            self.missing(rule, 'fn ' + path)
        else:
            self.functions.add(b.path)
        return b


def load_known():
    p = os.path.join(VERIF, 'known_findings.json')
    if not os.path.exists(p):
        return {'open': [], 'fixed': []}
    with open(p) as f:
        return json.load(f)


def run_property(prop, tier, rule_fn, seed=0, only_rule=None, quiet=False):
    t0 = time.time()
    try:
        d, key, cached = X.extract('default')
    except X.BuildFailed as e:
        print('BUILD-FAILED: /repo does not compile; no verdict for %s' % prop)
        print(e)
        return 2
    units = {'lib': load_unit(os.path.join(d, 'fclones-lib.json'))}
    binf = os.path.join(d, 'fclones-bin.json')
    if os.path.exists(binf):
        units['bin'] = load_unit(binf)
    extra_units = {}
    if tier == 'thorough':
        for cfg in ('alltargets', 'nodefault'):
            try:
                d2, _, _ = X.extract(cfg)
            except X.BuildFailed as e:
                print('BUILD-FAILED (%s): %s' % (cfg, e))
                return 2
            for f in sorted(os.listdir(d2)):
                if f.endswith('.json'):
                    u = load_unit(os.path.join(d2, f))
                    extra_units['%s/%s' % (cfg, u.unit)] = u
    ctx = Ctx(prop, tier, units, key)
    ctx.extra_units = extra_units
    rule_fn(ctx)
    # thorough: re-evaluate on sibling units (test cfg, no-default-features)
    sibling_results = {}
    if tier == 'thorough':
        for name, u in extra_units.items():
            if u.unit in ('lib', 'libtest'):
                su = {'lib': u}
                # pair with a bin of the same config if present
                for n2, u2 in extra_units.items():
                    if n2.split('/')[0] == name.split('/')[0] and u2.unit in ('bin', 'bintest') and (u2.unit == 'bintest') == (u.unit == 'libtest'):
                        su['bin'] = u2
                if 'bin' not in su and 'bin' in units:
                    su['bin'] = units['bin']
                c2 = Ctx(prop, tier, su, key)
                c2.extra_units = {}
                c2.sibling = name
                rule_fn(c2)
                sibling_results[name] = c2
    return finish(ctx, sibling_results, t0, seed, cached, quiet)


def finish(ctx, siblings, t0, seed, cached, quiet=False):
    known = load_known()
    open_keys = {k['key']: k for k in known.get('open', []) if k.get('property') == ctx.prop}
    viol = [o for o in ctx.obligations if o['verdict'] == 'VIOLATION']
    # sibling units: violations there count too (keyed with the unit name unless the same key fired in the main unit)
    main_keys = {o['key'] for o in viol}
    sib_obl = 0
    for name, c2 in siblings.items():
        sib_obl += len(c2.obligations)
        for o in c2.obligations:
            if o['verdict'] == 'VIOLATION' and o['key'] not in main_keys:
                o2 = dict(o)
                o2['where'] = '[%s] %s' % (name, o['where'])
                viol.append(o2)
                main_keys.add(o['key'])
    unlisted = [o for o in viol if o['key'] not in open_keys]
    listed = [o for o in viol if o['key'] in open_keys]
    out = []
    for o in ctx.obligations:
        if o['verdict'] == 'OK':
            out.append('OK        %-8s %s  %s  %s' % (o['rule'], o['where'], o['key'].split('|', 1)[1], o['detail']))
    for o in ctx.obligations:
        if o['verdict'] == 'ADVISORY':
            out.append('ADVISORY  %-8s %s  %s  %s (cost only: the property holds either way, no violation)' % (o['rule'], o['where'], o['key'].split('|', 1)[1], o['detail']))
    for n in ctx.notes:
        out.append('NOTE      %-8s %s  %s' % (n['rule'], n['where'], n['text']))
    for o in listed:
        out.append('KNOWN-FINDING: property=%s %s at %s: %s' % (ctx.prop, o['key'], o['where'], open_keys[o['key']].get('what', o['detail'])))
    vdir = os.path.join(VERIF, 'evidence', 'violations') if not os.environ.get('FCVERIF_NO_EVIDENCE') else os.path.join(X.WORK, 'mutant-violations')
    replay_paths = []
    if unlisted:
        os.makedirs(vdir, exist_ok=True)
    for i, o in enumerate(unlisted):
        rp = os.path.join(vdir, '%s-%d.json' % (ctx.prop, i))
        with open(rp, 'w') as f:
            json.dump({'property': ctx.prop, 'rule': o['rule'], 'key': o['key'], 'where': o['where'],
                       'detail': o['detail'], 'facts_key': ctx.facts_key}, f, indent=1)
        replay_paths.append(rp)
        out.append('FAIL      %-8s %s  %s  %s' % (o['rule'], o['where'], o['key'].split('|', 1)[1], o['detail']))
        out.append('VIOLATION property=%s replay=%s' % (ctx.prop, rp))
    if not quiet:
        print('\n'.join(out))
    wall = time.time() - t0
    sites = {(o['rule'], o['where']) for o in ctx.obligations}
    samples = [{'rule': o['rule'], 'instance': o['key'].split('|', 1)[1], 'where': o['where'],
                'verdict': o['verdict'], 'detail': o['detail']} for o in ctx.obligations]
    # keep the evidence readable: every violation + up to 40 OK obligations
    shown = [s for s in samples if s['verdict'] != 'OK'] + [s for s in samples if s['verdict'] == 'OK'][:40]
    from .rules import RULE_DOC
    ev = {
        'property_id': ctx.prop,
        'tier': ctx.tier,
        'seed': seed,
        'level': 'other',
        'coverage': {
            'explanation': RULE_DOC.get(ctx.prop, {}).get('explanation', '') + ' Rules evaluated in this run: %s; the statement of each is under rule_texts, the obligations it produced under samples.' % ', '.join(sorted(ctx.rules_run, key=lambda r: (r.split('.')[0], int(re.sub(r'\D', '', r.split('.')[1]) or 0)) if '.' in r else (r, 0))),
            'evaluations': len(ctx.obligations) + sib_obl,
            'distinct_nontrivial': len(sites),
            'rule': 'one evaluation = one rule instance (rule id x resolved anchor: call site, CFG edge, field, table row) decided on the '
                    'MIR of /repo\'s current tree; distinct = distinct (rule, source site) pairs; every instance is non-trivial in the sense that '
                    'its anchor was found in the resolved program (a missing anchor or a count below the floor is itself a violation)',
            'samples': shown,
            'rules': sorted(ctx.rules_run),
            'rule_texts': RULE_DOC.get(ctx.prop, {}).get('rules', {}),
            'functions_analysed': sorted(ctx.functions),
            'units': {n: {'bodies': len(u.bodies), 'cfg': u.cfg} for n, u in ctx.units.items()},
            'sibling_units': {n: {'bodies': len(c.lib.bodies), 'obligations': len(c.obligations),
                                  'violations': sum(1 for o in c.obligations if o['verdict'] == 'VIOLATION')} for n, c in siblings.items()},
            'instance_counts': ctx.stats,
            'notes': ctx.notes,
            'facts_key': ctx.facts_key,
            'facts_from_cache': cached,
            'known_findings_reported': [o['key'] for o in listed],
            'not_decided': RULE_DOC.get(ctx.prop, {}).get('not_decided', ''),
            'exhaustive': False,
        },
        'assumptions': RULE_DOC.get(ctx.prop, {}).get('assumptions', []) + [
            'rustc MIR construction and callee resolution are correct (nightly 1.97, opt-level 0)',
            'external crates behave as documented (they appear as named leaf callees)',
            'Linux/x86-64 cfg only; default features in the quick tier',
        ],
        'wall_s': round(wall, 3),
        'violations': len(unlisted),
    }
    ev.update(getattr(ctx, 'extra_evidence', {}))
    if not os.environ.get('FCVERIF_NO_EVIDENCE'):
        os.makedirs(os.path.join(VERIF, 'evidence'), exist_ok=True)
        with open(os.path.join(VERIF, 'evidence', '%s.json' % ctx.prop), 'w') as f:
            json.dump(ev, f, indent=1)
    if not quiet:
        print('%s: %d rule instances, %d sites, %d violations (%d known), %.1fs, facts %s%s' % (
            ctx.prop, len(ctx.obligations), len(sites), len(unlisted), len(listed), wall, ctx.facts_key,
            ' (cached)' if cached else ''))
    return 1 if unlisted else 0

"""Opt-in views of a body in which closures handed to combinators are spliced into the body.

`match` and the combinators of Option / Result are two spellings of one control flow (`r.and_then(|x| f(x)).map_err(|e| g(e))` is
`match r { Ok(x) => match f(x) { Ok(y) => Ok(y), Err(e) => Err(g(e)) }, Err(e) => Err(g(e)) }`).  A rule that asks for an order of calls, for
the arm an operation runs on, or for what happens to an error needs one spelling: `desugared(unit, body)` returns a copy of the body in
which every such combinator call whose closure is known is replaced by the switch on the discriminant, the closure body spliced into the
arm it runs on, and the construction of the result.  The rewriting is exact (it is what the standard library functions do).

With `adaptors=True` the closures handed to iterator adaptors (`map`, `filter`, `filter_map`, `for_each`, `any`, `retain`, ..) are spliced in
as well, ONCE, in front of the adaptor call: the body then contains what the loop body of the equivalent `for` loop would contain, at the
place where the loop would stand.  This is an approximation of the control flow (the body of a loop runs any number of times) and is meant
for rules that ask what a construction is made from, and which tests dominate it - not for path rules inside the closure.

The bodies of the unit are left as they are: a view is a new Body object; `consumed` lists the closures that were spliced in, so that a rule
that also walks `closures_of(body)` does not count their contents twice.
"""
import copy, re
from .inline import _stmt, _term, _place, _operand

RESULT = 'std::result::Result'
OPTION = 'std::option::Option'
COMB = re.compile(r'^std::(result::Result::<T, E>|option::Option::<T>)::(map|map_err|and_then|or_else|unwrap_or_else|is_ok_and|is_some_and|map_or|map_or_else|ok_or_else|filter)$')
ADAPTORS = re.compile(r'Iterator::(map|filter|filter_map|flat_map|for_each|any|all|position|find|find_map|take_while|skip_while|map_while|inspect|fold|try_for_each)$'
                      r'|::(retain|retain_mut|sort_by_key|sort_by|dedup_by_key|partition)$|ParallelIterator::(map|filter|filter_map|for_each|flat_map)$')


def _agg(adt, variant, ops):
    return {'k': 'agg', 'ak': 'adt', 'adt': adt, 'variant': variant, 'fields': ['0'] if ops else [], 'ops': ops}


class _Builder:
    def __init__(self, raw):
        self.raw = raw

    def local(self, ty='?'):
        self.raw['locals'].append({'ty': ty, 'name': None})
        return len(self.raw['locals']) - 1

    def block(self, stmts=None, term=None):
        self.raw['blocks'].append({'stmts': stmts or [], 'term': term or {'k': 'unreach'}, 'cleanup': False})
        return len(self.raw['blocks']) - 1

    def stmt(self, dest, rv, line):
        return {'p': dest, 'rv': rv, 'line': line, 'exp': False}


def _splice_closure(bld, closure_raw, env_operand, args, dest, ret, line):
    """append the closure body; parameters: _1 = the closure value (by reference or by value, as its body expects), _2.. = args (operands, or
    None for "some value"); the value it returns goes to `dest`, control to `ret`. Returns the entry block."""
    raw = bld.raw
    off = len(raw['locals'])
    boff = len(raw['blocks']) + 1            # one block in front for the parameter assignments
    for l in copy.deepcopy(closure_raw['locals']):
        if isinstance(l, dict) and l.get('name'):
            l['iname'] = l['name']
            l['name'] = None
        raw['locals'].append(l)
    pre = []
    env_ty = closure_raw['locals'][1]['ty'] if len(closure_raw['locals']) > 1 else ''
    env_place = env_operand.get('m') or env_operand.get('c')
    if env_place is not None:
        if env_ty.startswith('&mut '):
            pre.append(bld.stmt([off + 1, []], {'k': 'ref', 'mut': True, 'p': env_place}, line))
        elif env_ty.startswith('&'):
            pre.append(bld.stmt([off + 1, []], {'k': 'ref', 'mut': False, 'p': env_place}, line))
        else:
            pre.append(bld.stmt([off + 1, []], {'k': 'use', 'op': env_operand}, line))
    for i, a in enumerate(args):
        if a is not None and off + 2 + i < len(raw['locals']):
            rv = a if isinstance(a.get('k'), str) else {'k': 'use', 'op': a}      # an rvalue (`&payload`) or an operand
            pre.append(bld.stmt([off + 2 + i, []], rv, line))
    # captured variables: where the closure value is built in this body, a read of capture i inside the closure is a read of the operand
    # that was captured (field-sensitive: `path` and `tmp` captured by one closure stay two things)
    caps = {}
    if env_place is not None and not env_place[1]:
        defs = [st for blk_ in raw['blocks'] for st in blk_['stmts'] if st['p'] == [env_place[0], []]]
        if len(defs) == 1 and defs[0]['rv'].get('k') == 'agg' and defs[0]['rv'].get('ak') == 'closure':
            for i, o in enumerate(defs[0]['rv']['ops']):
                pl = o.get('m') or o.get('c')
                if pl is not None:
                    u = bld.local(raw['locals'][pl[0]]['ty'] if not pl[1] else '?')
                    pre.append(bld.stmt([u, []], {'k': 'use', 'op': {'c': pl}}, line))
                    caps[i] = u

    def subst_place(p):
        if p[0] != off + 1 or not caps:
            return p
        proj = list(p[1])
        j = 0
        if proj and proj[0] == '*':
            j = 1
        if len(proj) > j and isinstance(proj[j], list) and proj[j][0] == 'F' and proj[j][1] in caps:
            return [caps[proj[j][1]], proj[j + 1:]]
        return p

    def subst_op(o):
        if isinstance(o, dict):
            if 'c' in o:
                return dict(o, c=subst_place(o['c']))
            if 'm' in o:
                return dict(o, m=subst_place(o['m']))
        return o

    def subst_stmt(st):
        st = dict(st)
        st['p'] = subst_place(st['p'])
        rv = dict(st['rv'])
        for kk in ('op', 'a', 'b'):
            if isinstance(rv.get(kk), dict):
                rv[kk] = subst_op(rv[kk])
        if rv.get('ops'):
            rv['ops'] = [subst_op(o) for o in rv['ops']]
        if isinstance(rv.get('p'), list):
            rv['p'] = subst_place(rv['p'])
        st['rv'] = rv
        return st

    def subst_term(t_):
        if t_['k'] == 'call':
            t_ = dict(t_, args=[subst_op(a) for a in t_['args']], dest=subst_place(t_['dest']))
        elif t_['k'] == 'switch':
            t_ = dict(t_, op=subst_op(t_['op']))
        elif t_['k'] == 'drop':
            t_ = dict(t_, p=subst_place(t_['p']))
        return t_
    entry = bld.block(pre, {'k': 'goto', 't': boff, 'line': line, 'exp': False})
    assert entry == boff - 1
    for blk in closure_raw['blocks']:
        nb = {'stmts': [subst_stmt(_stmt(s, off)) for s in blk['stmts']], 'cleanup': blk['cleanup']}
        bt = blk['term']
        if bt['k'] == 'ret':
            nb['stmts'].append(bld.stmt(dest, {'k': 'use', 'op': {'m': [off, []]}}, bt.get('line', line)))
            nb['term'] = dict(bt, k='goto', t=ret)
        else:
            nb['term'] = subst_term(_term(bt, off, boff))
        raw['blocks'].append(nb)
    return entry


def _closure_of(unit, body_raw, operand):
    p = operand.get('m') or operand.get('c')
    if p is None or p[1]:
        return None, None
    ty = body_raw['locals'][p[0]]['ty']
    cp = unit.closure_of_type(ty)
    cb = unit.body(cp) if cp else None
    return (cb.raw if cb is not None else None), cp


def _split_tuples(raw):
    """`match (a, b) { (Ok(x), Some(y)) => .. }` builds a tuple only to take it apart: where a tuple is built once and then only read through
    its components, each component becomes a variable of its own (`_t = (a, b)` -> `_t0 = a; _t1 = b`, `(_t.i).rest` -> `_ti.rest`)"""
    n = 0
    builds = {}
    for blk in raw['blocks']:
        for st in blk['stmts']:
            if not st['p'][1] and st['rv'].get('k') == 'agg' and st['rv'].get('ak') == 'tuple' and st['rv'].get('ops'):
                builds.setdefault(st['p'][0], []).append(st)
    cand = {l: v[0] for l, v in builds.items() if len(v) == 1}
    if not cand:
        return 0

    def places_of(blk):
        for st in blk['stmts']:
            yield st['p'], ('dest', st)
            rv = st['rv']
            for kk in ('op', 'a', 'b'):
                o = rv.get(kk)
                if isinstance(o, dict) and ('c' in o or 'm' in o):
                    yield (o.get('c') or o.get('m')), ('op', o)
            for o in rv.get('ops', []) or []:
                if isinstance(o, dict) and ('c' in o or 'm' in o):
                    yield (o.get('c') or o.get('m')), ('op', o)
            if isinstance(rv.get('p'), list):
                yield rv['p'], ('rvp', rv)
        t = blk['term']
        if t['k'] == 'call':
            for a in t['args']:
                if 'c' in a or 'm' in a:
                    yield (a.get('c') or a.get('m')), ('op', a)
            yield t['dest'], ('cdest', t)
        elif t['k'] == 'switch':
            o = t['op']
            if 'c' in o or 'm' in o:
                yield (o.get('c') or o.get('m')), ('op', o)
        elif t['k'] == 'drop':
            yield t['p'], ('drop', t)
    # every use of the tuple goes through a component
    for blk in raw['blocks']:
        for p, (kind, holder) in places_of(blk):
            if p[0] in cand:
                if kind == 'dest' and holder is cand[p[0]]:
                    continue
                if kind == 'drop':
                    continue
                e0 = p[1][0] if p[1] else None
                if not (isinstance(e0, list) and e0[0] == 'F' and isinstance(e0[1], int)):
                    cand.pop(p[0], None)
    if not cand:
        return 0
    comp = {}
    for l, st in cand.items():
        comp[l] = []
        for i, o in enumerate(st['rv']['ops']):
            raw['locals'].append({'ty': '?', 'name': None})
            comp[l].append(len(raw['locals']) - 1)

    def fix(p):
        if p[0] in comp and p[1] and isinstance(p[1][0], list) and p[1][0][0] == 'F' and p[1][0][1] < len(comp[p[0]]):
            return [comp[p[0]][p[1][0][1]], p[1][1:]]
        return p
    for blk in raw['blocks']:
        new_stmts = []
        for st in blk['stmts']:
            if st['p'][0] in cand and cand[st['p'][0]] is st:
                for i, o in enumerate(st['rv']['ops']):
                    new_stmts.append({'p': [comp[st['p'][0]][i], []], 'rv': {'k': 'use', 'op': o}, 'line': st.get('line', 0), 'exp': False})
                n += 1
                continue
            st['p'] = fix(st['p'])
            rv = st['rv']
            for kk in ('op', 'a', 'b'):
                o = rv.get(kk)
                if isinstance(o, dict):
                    for k2 in ('c', 'm'):
                        if k2 in o:
                            o[k2] = fix(o[k2])
            for o in rv.get('ops', []) or []:
                if isinstance(o, dict):
                    for k2 in ('c', 'm'):
                        if k2 in o:
                            o[k2] = fix(o[k2])
            if isinstance(rv.get('p'), list):
                rv['p'] = fix(rv['p'])
            new_stmts.append(st)
        blk['stmts'] = new_stmts
        t = blk['term']
        if t['k'] == 'call':
            for a in t['args']:
                for k2 in ('c', 'm'):
                    if k2 in a:
                        a[k2] = fix(a[k2])
            t['dest'] = fix(t['dest'])
        elif t['k'] == 'switch':
            for k2 in ('c', 'm'):
                if k2 in t['op']:
                    t['op'][k2] = fix(t['op'][k2])
        elif t['k'] == 'drop' and t['p'][0] in comp:
            t['p'] = [comp[t['p'][0]][0], []]
    return n


def desugared(unit, body, adaptors=False, _cache={}):
    key = (id(unit), body.path, adaptors)
    if key in _cache:
        return _cache[key]
    from .facts import Body
    raw = copy.deepcopy(body.raw)
    bld = _Builder(raw)
    consumed = []
    n0 = len(raw['blocks'])
    changed = True
    rounds = 0
    while changed and rounds < 6:
        changed = False
        rounds += 1
        for bi in range(len(raw['blocks'])):
            blk = raw['blocks'][bi]
            t = blk['term']
            if t['k'] != 'call' or blk['cleanup'] or t.get('ret') is None or t['dest'][1]:
                continue
            path = t['f'].get('path') or ''
            m = COMB.match(path)
            line = t.get('line', 0)
            if m and t['args']:
                is_res = 'Result' in m.group(1)
                meth = m.group(2)
                recv = t['args'][0]
                rp = recv.get('m') or recv.get('c')
                fop = t['args'][-1]
                craw, cp = _closure_of(unit, raw, fop)
                if rp is None or rp[1] or craw is None:
                    continue
                dest, R = t['dest'], t['ret']
                adt = RESULT if is_res else OPTION
                yes_v, no_v = ('Ok', 'Err') if is_res else ('Some', 'None')
                yes_i, no_i = (0, 1) if is_res else (1, 0)
                # which variant the closure runs on
                on_yes = meth in ('map', 'and_then', 'is_ok_and', 'is_some_and', 'map_or', 'map_or_else', 'filter')
                if is_res and meth in ('map_err', 'or_else', 'unwrap_or_else'):
                    on_yes = False
                if (not is_res) and meth in ('or_else', 'unwrap_or_else', 'ok_or_else'):
                    on_yes = False
                d = bld.local('isize')
                pay_yes = [rp[0], [['D', yes_i, yes_v], ['F', 0, '0', adt]]]
                pay_no = [rp[0], [['D', no_i, no_v], ['F', 0, '0', adt]]] if is_res else None
                res = bld.local(craw['locals'][0]['ty'])
                # continuation blocks
                def finish(rv):
                    return bld.block([bld.stmt(dest, rv, line)], {'k': 'goto', 't': R, 'line': line, 'exp': False})
                use = lambda pl: {'k': 'use', 'op': {'m': pl}}
                if meth == 'map':
                    after = finish(_agg(adt, yes_v, [{'m': [res, []]}]))
                    other = finish(_agg(adt, no_v, [{'m': pay_no}] if is_res else []))
                elif meth == 'map_err':
                    after = finish(_agg(adt, 'Err', [{'m': [res, []]}]))
                    other = finish(_agg(adt, 'Ok', [{'m': pay_yes}]))
                elif meth == 'and_then':
                    after = finish(use([res, []]))
                    other = finish(_agg(adt, no_v, [{'m': pay_no}] if is_res else []))
                elif meth == 'or_else':
                    after = finish(use([res, []]))
                    other = finish(_agg(adt, yes_v, [{'m': pay_yes}]))
                elif meth == 'unwrap_or_else':
                    after = finish(use([res, []]))
                    other = finish(use(pay_yes))
                elif meth in ('is_ok_and', 'is_some_and'):
                    after = finish(use([res, []]))
                    other = finish({'k': 'use', 'op': {'k': {'ty': 'bool', 'v': 'false'}}})
                elif meth == 'map_or':
                    after = finish(use([res, []]))
                    other = finish({'k': 'use', 'op': t['args'][1]})
                elif meth == 'map_or_else':
                    # two closures: the default one runs on Err(e) / None, the other on the payload
                    after = finish(use([res, []]))
                    draw, dcp = _closure_of(unit, raw, t['args'][1])
                    if draw is None:
                        continue
                    res2 = bld.local(draw['locals'][0]['ty'])
                    after2 = finish(use([res2, []]))
                    other = _splice_closure(bld, draw, t['args'][1], [{'m': pay_no}] if pay_no is not None else [], [res2, []], after2, line)
                    consumed.append(dcp)
                elif meth == 'ok_or_else':
                    after = finish(_agg(RESULT, 'Err', [{'m': [res, []]}]))
                    other = finish(_agg(RESULT, 'Ok', [{'m': pay_yes}]))
                elif meth == 'filter':
                    keep = finish(_agg(OPTION, 'Some', [{'m': pay_yes}]))
                    drop_ = finish(_agg(OPTION, 'None', []))
                    after = bld.block([], {'k': 'switch', 'op': {'m': [res, []]}, 'vals': [0], 'tgts': [drop_, keep], 'line': line, 'exp': False})
                    other = finish(_agg(OPTION, 'None', []))
                else:
                    continue
                # the argument of the closure
                if meth == 'filter':
                    arg = {'k': 'ref', 'mut': False, 'p': pay_yes}
                elif on_yes:
                    arg = {'m': pay_yes}
                else:
                    arg = {'m': pay_no} if pay_no is not None else None
                args = [arg] if arg is not None else []
                entry = _splice_closure(bld, craw, fop, args, [res, []], after, line)
                blk = raw['blocks'][bi]
                blk['stmts'].append(bld.stmt([d, []], {'k': 'disc', 'p': [rp[0], []]}, line))
                run_i = yes_i if on_yes else no_i
                oth_i = no_i if on_yes else yes_i
                tg = {run_i: entry, oth_i: other}
                unreach = bld.block([], {'k': 'unreach'})
                blk['term'] = {'k': 'switch', 'op': {'m': [d, []]}, 'vals': [0, 1], 'tgts': [tg[0], tg[1], unreach], 'line': line, 'exp': t.get('exp', False)}
                consumed.append(cp)
                changed = True
                continue
            if re.search(r'(^|::)(<impl bool>|bool)::then_some$', path) and len(t['args']) == 2:
                # `b.then_some(v)` is `if b { Some(v) } else { None }`
                dest, R = t['dest'], t['ret']
                yes = bld.block([bld.stmt(dest, _agg(OPTION, 'Some', [t['args'][1]]), line)], {'k': 'goto', 't': R, 'line': line, 'exp': False})
                no = bld.block([bld.stmt(dest, _agg(OPTION, 'None', []), line)], {'k': 'goto', 't': R, 'line': line, 'exp': False})
                blk = raw['blocks'][bi]
                blk['term'] = {'k': 'switch', 'op': t['args'][0], 'vals': [0], 'tgts': [no, yes], 'line': line, 'exp': t.get('exp', False)}
                consumed.append('bool::then_some')
                changed = True
                continue
            if adaptors and ADAPTORS.search(path) and t['args']:
                done = blk.get('_spliced', [])
                for ai, a in enumerate(t['args']):
                    craw, cp = _closure_of(unit, raw, a)
                    if craw is None or cp in done:
                        continue
                    # a copy of this block that only holds the call; the original block now runs the closure body once and then goes there
                    call_blk = bld.block([], dict(t))
                    raw['blocks'][call_blk]['_spliced'] = done + [cp]
                    sink = bld.local(craw['locals'][0]['ty'])
                    entry = _splice_closure(bld, craw, a if ('c' in a) else {'c': (a.get('m'))}, [], [sink, []], call_blk, line)
                    blk = raw['blocks'][bi]
                    # the body of a loop runs any number of times, possibly never: what is inside the closure dominates nothing behind it
                    maybe = bld.local('bool')
                    blk['term'] = {'k': 'switch', 'op': {'c': [maybe, []]}, 'vals': [0], 'tgts': [call_blk, entry], 'line': line, 'exp': False}
                    consumed.append(cp)
                    changed = True
                    break
    for blk in raw['blocks']:
        blk.pop('_spliced', None)
    if _split_tuples(raw):
        consumed.append('(tuple scrutinee)')
    if consumed:
        from .inline import thread_known_variants
        for _ in range(3):
            thread_known_variants(raw, 0, len(raw['blocks']))
    nb = Body(raw, unit) if consumed else body
    nb.consumed = consumed
    _cache[key] = nb
    return nb

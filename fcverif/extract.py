"""Run the fact extractor over /repo's current working tree (cached by content hash)."""
import os, sys, subprocess, hashlib, fcntl, shutil, time, glob, json

VERIF = os.path.dirname(os.path.dirname(os.path.abspath(__file__)))
REPO = os.environ.get('FCVERIF_REPO', '/repo')
WORK = os.environ.get('FCVERIF_WORK', os.path.join(VERIF, '.work'))
DRIVER_DIR = os.path.join(VERIF, 'driver')
DRIVER = os.path.join(DRIVER_DIR, 'target', 'debug', 'fcx')

CONFIGS = {
    # name: cargo arguments
    'default': ['-p', 'fclones', '--lib', '--bins'],
    'alltargets': ['-p', 'fclones', '--all-targets'],
    'nodefault': ['-p', 'fclones', '--lib', '--bins', '--no-default-features'],
}


class BuildFailed(Exception):
    pass


def _sha_files(paths):
    h = hashlib.sha256()
    for p in sorted(paths):
        h.update(p.encode())
        h.update(b'\0')
        try:
            with open(p, 'rb') as f:
                h.update(f.read())
        except OSError:
            h.update(b'<missing>')
        h.update(b'\0')
    return h.hexdigest()


def source_files(repo):
    files = [os.path.join(repo, 'Cargo.toml'), os.path.join(repo, 'Cargo.lock'),
             os.path.join(repo, 'fclones', 'Cargo.toml')]
    for root, dirs, fs in os.walk(os.path.join(repo, 'fclones')):
        dirs[:] = [d for d in dirs if d not in ('target', '.git')]
        for f in fs:
            if f.endswith('.rs'):
                files.append(os.path.join(root, f))
    return files


def tree_key(repo):
    files = source_files(repo)
    rel = hashlib.sha256()
    for p in sorted(files):
        rel.update(os.path.relpath(p, repo).encode() + b'\0')
        try:
            with open(p, 'rb') as f:
                rel.update(hashlib.sha256(f.read()).digest())
        except OSError:
            rel.update(b'<missing>')
    try:
        with open(DRIVER, 'rb') as f:
            rel.update(hashlib.sha256(f.read()).digest())
    except OSError:
        rel.update(b'<nodriver>')
    return rel.hexdigest()[:24]


def sysroot():
    return subprocess.check_output(['rustc', '+nightly', '--print', 'sysroot'], text=True).strip()


def build_driver(quiet=True):
    env = dict(os.environ, CARGO_NET_OFFLINE='true')
    r = subprocess.run(['cargo', 'build', '--offline'], cwd=DRIVER_DIR, env=env,
                       stdout=subprocess.PIPE, stderr=subprocess.STDOUT, text=True)
    if r.returncode != 0:
        sys.stderr.write(r.stdout)
        raise RuntimeError('driver build failed')


def extract(config='default', repo=None, work=None, log=None):
    """Returns the directory with fclones-<unit>.json for `config`, extracting if
    the cache has no entry for the current source hash."""
    repo = repo or REPO
    work = work or WORK
    os.makedirs(work, exist_ok=True)
    if not os.path.exists(DRIVER):
        build_driver()
    key = tree_key(repo)
    out = os.path.join(work, 'facts', key, config)
    marker = os.path.join(out, 'DONE')
    if os.path.exists(marker):
        try:
            os.utime(os.path.join(work, 'facts', key), None)
        except OSError:
            pass
        return out, key, True
    lock = open(os.path.join(work, 'extract.lock'), 'w')
    fcntl.flock(lock, fcntl.LOCK_EX)
    try:
        if os.path.exists(marker):
            return out, key, True
        if os.path.exists(out):
            shutil.rmtree(out)
        os.makedirs(out)
        target = os.path.join(work, 'target')
        # cargo's freshness cache would skip the wrapper: drop the member fingerprints
        for fp in glob.glob(os.path.join(target, 'debug', '.fingerprint', 'fclones-*')):
            shutil.rmtree(fp, ignore_errors=True)
        nonce = '%s-%d' % (key, int(time.time() * 1000))
        env = dict(os.environ)
        env.update({
            'FCX_OUT': out, 'FCX_NONCE': nonce, 'FCX_CRATES': 'fclones',
            'LD_LIBRARY_PATH': os.path.join(sysroot(), 'lib'),
            'RUSTFLAGS': '-Zmir-opt-level=0 -Awarnings',
            'RUSTC_WORKSPACE_WRAPPER': DRIVER,
            'CARGO_TARGET_DIR': target,
            'CARGO_NET_OFFLINE': 'true',
        })
        env.pop('RUSTC_WRAPPER', None)
        cmd = ['cargo', '+nightly', 'check', '--offline'] + CONFIGS[config]
        t0 = time.time()
        r = subprocess.run(cmd, cwd=repo, env=env, stdout=subprocess.PIPE, stderr=subprocess.STDOUT, text=True)
        if r.returncode != 0:
            tail = '\n'.join(r.stdout.splitlines()[-40:])
            shutil.rmtree(out, ignore_errors=True)
            raise BuildFailed(tail)
        # the wrapper must really have run in this invocation
        libf = os.path.join(out, 'fclones-lib.json')
        if not os.path.exists(libf):
            shutil.rmtree(out, ignore_errors=True)
            raise RuntimeError('extractor produced no lib facts (wrapper skipped?)\n' + r.stdout[-2000:])
        with open(libf) as f:
            head = f.read(400)
        if nonce not in head:
            raise RuntimeError('stale fact file (nonce mismatch)')
        with open(marker, 'w') as f:
            f.write(json.dumps({'nonce': nonce, 'secs': time.time() - t0, 'cmd': cmd}))
        _gc(os.path.join(work, 'facts'), keep=key)
        return out, key, False
    finally:
        fcntl.flock(lock, fcntl.LOCK_UN)
        lock.close()


def _gc(facts_dir, keep, max_entries=24, min_age_s=1800):
    """drop old cache entries; never one that may still be in use by a concurrent run (younger than min_age_s)"""
    try:
        ents = [(os.path.getmtime(os.path.join(facts_dir, e)), e) for e in os.listdir(facts_dir) if e != keep]
    except OSError:
        return
    ents.sort(reverse=True)
    now = time.time()
    for mt, e in ents[max_entries - 1:]:
        if now - mt > min_age_s:
            shutil.rmtree(os.path.join(facts_dir, e), ignore_errors=True)

"""Shared intra-procedural analyses: provenance slices (DESIGN 3.3), result
classification (3.5), guard extraction (3.6)."""
import re
from collections import defaultdict
from .facts import (Call, op_place, op_local, op_const, const_val, const_int, const_bool,
                    rvalue_operands, rvalue_places, rvalue_locals, place_fields)


class Slice:
    def __init__(self):
        self.locals = set()
        self.params = set()       # parameter indices (1-based local numbers)
        self.upvars = set()       # (index, name) of closure up-vars read
        self.calls = []           # Call objects whose result flows in
        self.consts = []          # constant dicts
        self.fields = set()       # (base local type, field name)
        self.items = set()        # const/static item paths
        self.binops = []          # (op, stmt)

    def call_paths(self):
        return {c.path or c.decl for c in self.calls}

    def has_call(self, regex):
        r = re.compile(regex)
        return any(c.matches(r) for c in self.calls)

    def param_names(self, body):
        return {body.local_name(p) for p in self.params}

    def field_names(self):
        return {f for _, f in self.fields}

    def describe(self, body):
        parts = []
        if self.params:
            parts.append('params=' + ','.join(sorted(str(body.local_name(p) or p) for p in self.params)))
        if self.upvars:
            parts.append('upvars=' + ','.join(sorted(n or str(i) for i, n in self.upvars)))
        if self.fields:
            parts.append('fields=' + ','.join(sorted(self.field_names())))
        cs = sorted(self.call_paths())
        if cs:
            parts.append('calls=' + ','.join(cs[:8]))
        vs = sorted({c.get('v', c.get('fn', '?')) for c in self.consts})
        if vs:
            parts.append('consts=' + ','.join(v[:30] for v in vs[:6]))
        return '; '.join(parts)


def _mutref_calls(body):
    """local -> calls that receive `&mut local` (possibly through a reborrow chain)"""
    cache = getattr(body, '_mutref_calls', None)
    if cache is not None:
        return cache
    # refs: tmp -> base local for `tmp = &mut base...` and reborrows `tmp2 = &mut *tmp`
    base_of = {}
    changed = True
    stmts = []
    for b in body.blocks:
        if b['cleanup']:
            continue
        for s in b['stmts']:
            stmts.append(s)
    while changed:
        changed = False
        for s in stmts:
            rv = s['rv']
            d = s['p']
            if d[1]:
                continue
            tgt = None
            if rv['k'] in ('ref', 'rawptr') and rv.get('mut'):
                src = rv['p']
                if '*' in src[1] and src[0] in base_of:
                    tgt = base_of[src[0]]
                elif '*' in src[1]:
                    tgt = None     # deref of a parameter etc: the referent is not a local
                else:
                    tgt = src[0]
            elif rv['k'] == 'use':
                l = op_local(rv['op'])
                if l is not None and l in base_of and not op_place(rv['op'])[1]:
                    tgt = base_of[l]
            if tgt is not None and base_of.get(d[0]) != tgt:
                base_of[d[0]] = tgt
                changed = True
    out = defaultdict(list)
    for c in body.calls():
        for a in c.args:
            l = op_local(a)
            if l is not None and l in base_of and not op_place(a)[1]:
                out[base_of[l]].append(c)
    body._mutref_calls = out
    return out


def backslice(body, starts, follow_call=None, stop_local=None, mutref=True):
    """Flow-insensitive backward data-dependence slice inside one body.

    starts: iterable of operands, places or local numbers.
    follow_call(call) -> None (follow every argument) | list of argument indices
    to follow | [] (treat the call result as a root).
    stop_local(local) -> True to treat a local as a root (not expanded)."""
    sl = Slice()
    work = []

    def add_place(p):
        l = p[0]
        fs = place_fields(p)
        if fs:
            sl.fields.add((body.local_ty(l), fs[0]))
            for f in fs[1:]:
                sl.fields.add(('?', f))
        if body.kind == 'closure' and l == 1 and p[1]:
            for e in p[1]:
                if isinstance(e, list) and e[0] == 'F':
                    sl.upvars.add((e[1], body.upvars.get(e[1])))
                    break
        for e in p[1]:
            if isinstance(e, list) and e[0] == 'I':
                work.append(e[1])
        work.append(l)

    def add_operand(o):
        p = op_place(o)
        if p is not None:
            add_place(p)
        else:
            k = op_const(o)
            if k is not None:
                sl.consts.append(k)
                if 'item' in k:
                    sl.items.add(k['item'])
                if 'static' in k:
                    sl.items.add(k['static'])

    for s in starts:
        if isinstance(s, int):
            work.append(s)
        elif isinstance(s, dict):
            add_operand(s)
        else:
            add_place(s)
    defs = body.defs()
    mrc = _mutref_calls(body) if mutref else {}
    seen_calls = set()

    def add_call(c):
        if c.bb in seen_calls:
            return
        seen_calls.add(c.bb)
        sl.calls.append(c)
        idx = follow_call(c) if follow_call else None
        for i, a in enumerate(c.args):
            if idx is None or i in idx:
                add_operand(a)
        fop = c.f.get('fop')
        if fop:
            add_operand(fop)

    while work:
        l = work.pop()
        if l in sl.locals:
            continue
        sl.locals.add(l)
        if 1 <= l <= body.argc:
            sl.params.add(l)
        if stop_local and stop_local(l):
            continue
        for (bb, idx, kind, payload) in defs.get(l, []):
            if kind == 'assign':
                rv = payload['rv']
                for o in rvalue_operands(rv):
                    add_operand(o)
                if rv['k'] in ('ref', 'rawptr', 'disc'):
                    add_place(rv['p'])
                if rv['k'] == 'bin':
                    sl.binops.append((rv['op'], payload))
            else:
                add_call(payload)
        for c in mrc.get(l, []):
            add_call(c)
    return sl


def upvar_operand(unit, closure_body, idx):
    """(creating body, operand) that initialises up-var `idx` of a closure"""
    parent = unit.body(closure_body.raw.get('parent'))
    if parent is None:
        return None, None
    for b in parent.blocks:
        for s in b['stmts']:
            rv = s['rv']
            if rv['k'] == 'agg' and rv.get('ak') == 'closure' and rv['def'] == closure_body.path:
                if idx < len(rv['ops']):
                    return parent, rv['ops'][idx]
    return parent, None


def callable_body(unit, body, operand):
    """the body that runs when `operand` is called: a closure (by the type of the local) or a function item passed by name (`.any(is_special)`)"""
    k = operand.get('k') if isinstance(operand, dict) else None
    if isinstance(k, dict) and k.get('fn'):
        return unit.body(k['fn'])
    l = op_local(operand)
    if l is None:
        return None
    cp = unit.closure_of_type(body.local_ty(l))
    if cp:
        return unit.body(cp)
    # a local that holds a function item (`let pred = is_special;`)
    dd = direct_def(body, operand)
    if dd[0] == 'const' and isinstance(dd[1], dict) and dd[1].get('fn'):
        return unit.body(dd[1]['fn'])
    return None


def closure_creation(unit, closure_path):
    """(creating body, bb, stmt) of the closure aggregate"""
    cb = unit.body(closure_path)
    parent = unit.body(cb.raw.get('parent')) if cb else None
    if parent is None:
        return None
    for bi, b in enumerate(parent.blocks):
        for s in b['stmts']:
            rv = s['rv']
            if rv['k'] == 'agg' and rv.get('ak') == 'closure' and rv['def'] == closure_path:
                return parent, bi, s
    return None


# ---------------------------------------------------------------------------
# forward flow of a value (moves / copies / refs) inside a body

def forward_locals(body, start_local, through_calls=None):
    """locals that (transitively) receive the value of start_local by move/copy/ref/
    field-less use; through_calls(call, argidx) -> True to continue into the result."""
    seen = {start_local}
    work = [start_local]
    while work:
        l = work.pop()
        for (bb, idx, what) in body.operand_uses(l):
            if what[0] == 'stmt':
                s = what[1]
                rv = s['rv']
                if rv['k'] in ('use', 'ref', 'cast', 'rawptr'):
                    d = s['p'][0]
                    if d not in seen:
                        seen.add(d)
                        work.append(d)
            elif what[0] == 'callarg' and through_calls and through_calls(what[1], what[2]):
                d = what[1].dest[0]
                if d not in seen:
                    seen.add(d)
                    work.append(d)
    return seen


# ---------------------------------------------------------------------------
# Result / error discipline (DESIGN 3.5)

LOG_CALL = re.compile(r'(log::Log(Ext)?::(log|warn|err|info|debug))|(<.* as log::Log(Ext)?>::(log|warn|err|info))|(walk::Walk::log_warn)|(log::StdLog::)|(Walk<.*>::log_warn)|(Walk::<.*>::log_warn)|(handle_fetch_physical_location_err)|std::io::_eprint|(^log::__private_api::log)')
DISCARD_METHODS = re.compile(r'Result(?:::)?<.*>::(ok|is_ok|is_err|unwrap_or|unwrap_or_default|unwrap_or_else|err|is_ok_and|is_err_and)$')
PANIC_METHODS = re.compile(r'Result(?:::)?<.*>::(unwrap|expect|unwrap_err|expect_err)$')
PASS_METHODS = re.compile(r'Result(?:::)?<.*>::(map_err|map|and_then|or_else|inspect_err|as_ref|as_mut|with_context|context)$|<.* as std::convert::Into<.*>>::into|<.* as std::convert::From<.*>>::from')
TRY_BRANCH = re.compile(r'as std::ops::Try>::branch$')
FROM_RESIDUAL = re.compile(r'FromResidual.*>::from_residual$')


def is_result_ty(ty):
    return ty.startswith('std::result::Result<') or ty.startswith('core::result::Result<')


def result_err_ty(ty):
    """the E of Result<T, E> (outermost), best effort"""
    if not is_result_ty(ty):
        return None
    inner = ty[ty.index('<') + 1:-1]
    depth = 0
    last = 0
    parts = []
    for i, ch in enumerate(inner):
        if ch in '<([':
            depth += 1
        elif ch in '>)]':
            depth -= 1
        elif ch == ',' and depth == 0:
            parts.append(inner[last:i].strip())
            last = i + 1
    parts.append(inner[last:].strip())
    return parts[-1] if len(parts) >= 2 else None


class Fate:
    def __init__(self):
        self.kinds = set()      # PROPAGATED, LOGGED, DISCARDED, PANICS, MATCHED, PASSED(call), RETURNED, STORED
        self.notes = []
        self.err_arm_blocks = []   # entry blocks of Err arms of matches on the value
        self.ok_arm_blocks = []
        self.closures = []      # closures applied to the error (map_err etc.)
        self.ref_tests = 0      # tests that only look at the variant through a reference (is_ok / is_err)

    def __repr__(self):
        return 'Fate(%s)' % ','.join(sorted(self.kinds))


def _option_tests(body, local):
    """switches that decide on Some / None of the Option held in `local` (moved around freely): [(switch bb, None-side targets, Some-side targets)]"""
    out = []
    for l in forward_locals(body, local):
        for (bb, idx, what) in body.operand_uses(l):
            if what[0] == 'stmt' and what[1]['rv']['k'] == 'disc' and not (what[1]['rv']['p'][1] and what[1]['rv']['p'][1] != ['*']):
                for (b2, i2, w2) in body.operand_uses(what[1]['p'][0]):
                    if w2[0] == 'switch':
                        m = dict(zip(w2[1]['vals'], w2[1]['tgts']))
                        other = w2[1]['tgts'][-1]
                        out.append((b2, [m.get(0, other)], [m.get(1, other)]))
            elif what[0] == 'callarg' and what[1].matches(TRY_BRANCH):
                # ControlFlow: Continue = 0 (Some), Break = 1 (None)
                for (b2, i2, w2) in body.operand_uses(what[1].dest[0]):
                    if w2[0] == 'stmt' and w2[1]['rv']['k'] == 'disc':
                        for (b3, i3, w3) in body.operand_uses(w2[1]['p'][0]):
                            if w3[0] == 'switch':
                                m = dict(zip(w3[1]['vals'], w3[1]['tgts']))
                                other = w3[1]['tgts'][-1]
                                out.append((b3, [m.get(1, other)], [m.get(0, other)]))
    return out


def classify_result(body, call, _depth=0, _local=None):
    """What happens to the Result produced by `call` (or held in `_local`)."""
    fate = Fate()
    _switches = []
    start = call.dest[0] if _local is None else _local
    if _local is None and call.dest[1]:
        fate.kinds.add('STORED')
        return fate
    seen = set()
    work = [start]
    while work:
        l = work.pop()
        if l in seen:
            continue
        seen.add(l)
        if l == 0:
            fate.kinds.add('RETURNED')
            continue
        uses = body.operand_uses(l)
        nontrivial = False
        for (bb, idx, what) in uses:
            k = what[0]
            if k == 'stmt':
                s = what[1]
                rv = s['rv']
                if rv['k'] == 'disc' and (rv['p'][1] and rv['p'][1] != ['*']):
                    continue       # discriminant of a payload (nested match), not of the Result itself
                if rv['k'] == 'disc':
                    # match / if let on the result: find switch on the discriminant
                    nontrivial = True
                    fate.kinds.add('MATCHED')
                    dl = s['p'][0]
                    for (b2, i2, w2) in body.operand_uses(dl):
                        if w2[0] == 'switch':
                            t = w2[1]
                            vals, tg = t['vals'], t['tgts']
                            ea, oa = [], []
                            for v, tgt in zip(vals, tg):
                                (ea if v == 1 else oa).append(tgt)
                            other = tg[-1]
                            if 1 not in vals and 0 in vals:
                                ea.append(other)
                            if 0 not in vals and 1 in vals:
                                oa.append(other)
                            _switches.append((b2, ea, oa))
                elif rv['k'] in ('use', 'ref', 'cast'):
                    # whole-value move/copy/ref, or a read of a field (payload extraction)
                    reads = [p for p in rvalue_places(rv) if p[0] == l]
                    if any(p[1] and any(isinstance(e, list) and e[0] == 'D' for e in p[1]) for p in reads):
                        continue        # payload read inside a match arm
                    if s['p'][1]:
                        fate.kinds.add('STORED')
                        nontrivial = True
                    else:
                        work.append(s['p'][0])
                        nontrivial = True
                elif rv['k'] == 'agg':
                    fate.kinds.add('STORED')
                    nontrivial = True
            elif k == 'callarg':
                c, ai = what[1], what[2]
                nontrivial = True
                if c.matches(TRY_BRANCH):
                    fate.kinds.add('PROPAGATED')
                elif c.matches(r'::unwrap_or_else$') and len(c.args) > 1 and op_local(c.args[1]) is not None and re.search(r'\{closure@', body.local_ty(op_local(c.args[1]))):
                    # `r.unwrap_or_else(|e| { log.warn(e); default })`: the closure is the Err arm of a match on the result
                    fate.kinds.add('MATCHED')
                    fate.closures.append((c, op_local(c.args[1])))
                    fate.handler_closures = getattr(fate, 'handler_closures', []) + [(c, op_local(c.args[1]))]
                elif c.matches(DISCARD_METHODS):
                    byref = (c.t.get('argtys') or [''])[0].startswith('&')
                    tested = _option_tests(body, c.dest[0]) if (not byref and c.matches(r'::(ok|err)$')) else []
                    if tested:
                        # `r.ok()?`, `if let Some(x) = r.ok()`, `match r.ok() {..}`: the same decision as `if let Ok(x) = r` - the error value is
                        # not looked at, but the failure takes a branch of its own
                        fate.kinds.add('MATCHED')
                        is_ok = c.matches(r'::ok$')
                        for sb, none_arms, some_arms in tested:
                            _switches.append((sb, none_arms if is_ok else some_arms, some_arms if is_ok else none_arms))
                    elif c.matches(r'::(is_ok|is_err)$') and any(w3[0] == 'switch' for l3 in forward_locals(body, c.dest[0]) for (_b3, _i3, w3) in body.operand_uses(l3)):
                        # `if r.is_ok() {..} else {..}`: a match on the result without looking at the payloads
                        fate.kinds.add('MATCHED')
                        fate.ref_tests += 1
                        neg = c.matches(r'::is_err$')
                        for l3 in forward_locals(body, c.dest[0]):
                            for (b3, i3, w3) in body.operand_uses(l3):
                                if w3[0] == 'switch':
                                    tt, ft = switch_targets_bool(w3[1])
                                    if tt is not None:
                                        _switches.append((b3, [tt] if neg else [ft], [ft] if neg else [tt]))
                    else:
                        fate.kinds.add('INSPECTED' if byref else 'DISCARDED')
                        fate.notes.append('%s at %s' % (c.path.split('::')[-1], c.where()))
                elif c.matches(PANIC_METHODS):
                    fate.kinds.add('PANICS')
                    fate.notes.append('%s at %s' % (c.path.split('::')[-1], c.where()))
                elif c.matches(PASS_METHODS):
                    # closure argument?
                    for a in c.args[1:]:
                        al = op_local(a)
                        if al is not None:
                            ty = body.local_ty(al)
                            m = re.search(r'\{closure@', ty)
                            if m:
                                fate.closures.append((c, al))
                    if is_result_ty(c.dty) or c.dty.startswith('&'):
                        work.append(c.dest[0])
                    else:
                        fate.kinds.add('PASSED')
                        fate.notes.append('into %s at %s' % (c.path, c.where()))
                else:
                    fate.kinds.add('PASSED')
                    fate.notes.append('arg of %s at %s' % (c.path or c.decl, c.where()))
            elif k == 'ret':
                fate.kinds.add('RETURNED')
                nontrivial = True
            elif k == 'drop':
                pass
            elif k == 'switch':
                nontrivial = True
        if not nontrivial and l == start:
            fate.kinds.add('DISCARDED')
            fate.notes.append('dropped unread')
    # keep the outermost tests only: later switches on the same discriminant (drop flags of the
    # drop elaboration, repeated matches) are dominated by the first one and decide nothing new
    for (sb, ea, oa) in _switches:
        if any(o != sb and body.dominates(o, sb) for (o, _, _) in _switches):
            continue
        fate.err_arm_blocks += ea
        fate.ok_arm_blocks += oa
    if 'INSPECTED' in fate.kinds and not (fate.kinds & {'PROPAGATED', 'RETURNED', 'MATCHED', 'STORED', 'PASSED', 'PANICS'}):
        fate.kinds.add('DISCARDED')
    # logged? any Err arm that reaches a logging call before leaving
    for eb in fate.err_arm_blocks:
        if arm_reaches_call(body, eb, LOG_CALL):
            fate.kinds.add('LOGGED')
    return fate


def arm_reaches_call(body, start_bb, regex, limit=None):
    r = re.compile(regex) if isinstance(regex, str) else regex
    for b in body.reachable(start_bb):
        c = body.call_at(b)
        if c is not None and c.matches(r):
            return True
    return False


# ---------------------------------------------------------------------------
# discriminant switches

def switch_on_result_of(body, call):
    """For a call whose result is matched (directly or via `?`): returns a dict
    {'ok': [blocks], 'err': [blocks], 'via': 'try'|'match'} or None."""
    fate = classify_result(body, call)
    if fate.ok_arm_blocks or fate.err_arm_blocks:
        return {'ok': fate.ok_arm_blocks, 'err': fate.err_arm_blocks, 'via': 'match', 'fate': fate}
    # via `?`
    for l in forward_locals(body, call.dest[0], through_calls=lambda c, ai: ai == 0 and c.matches(PASS_METHODS)):
        for (bb, idx, what) in body.operand_uses(l):
            if what[0] == 'callarg' and what[1].matches(TRY_BRANCH):
                br = what[1]
                f2 = classify_result(body, br)
                # ControlFlow: 0 = Continue, 1 = Break
                return {'ok': f2.ok_arm_blocks, 'err': f2.err_arm_blocks, 'via': 'try', 'fate': fate}
    return None


# ---------------------------------------------------------------------------
# Guard extraction (DESIGN 3.6)

CMP_BIN = {'Lt': '<', 'Le': '<=', 'Gt': '>', 'Ge': '>=', 'Eq': '==', 'Ne': '!='}
CMP_CALL = re.compile(r'(PartialOrd(<.*>)?>?::(lt|le|gt|ge)$)|(PartialEq(<.*>)?>?::(eq|ne)$)')
CMP_CALL_OP = {'lt': '<', 'le': '<=', 'gt': '>', 'ge': '>=', 'eq': '==', 'ne': '!='}
FLIP = {'<': '>', '<=': '>=', '>': '<', '>=': '<=', '==': '==', '!=': '!='}
NEG = {'<': '>=', '<=': '>', '>': '<=', '>=': '<', '==': '!=', '!=': '=='}


class Cmp:
    """a comparison `a OP b` computed in block bb into local `dest`"""
    def __init__(self, body, bb, op, a, b, dest, line, site):
        self.body, self.bb, self.op, self.a, self.b, self.dest, self.line, self.site = body, bb, op, a, b, dest, line, site

    def __repr__(self):
        return '<cmp %s @%s:%d>' % (self.op, self.body.file, self.line)


def comparisons(body):
    out = []
    for bi, b in enumerate(body.blocks):
        if b['cleanup']:
            continue
        for s in b['stmts']:
            rv = s['rv']
            if rv['k'] == 'bin' and rv['op'] in CMP_BIN and not s['p'][1]:
                out.append(Cmp(body, bi, CMP_BIN[rv['op']], rv['a'], rv['b'], s['p'][0], s['line'], s))
        t = b['term']
        if t['k'] == 'call':
            c = Call(body, bi, t)
            if len(c.args) == 2 and (c.matches(CMP_CALL) or (c.f.get('trait', '').endswith(('PartialOrd', 'PartialEq')) and c.f.get('method') in CMP_CALL_OP)):
                m = c.f.get('method') or c.path.rsplit('::', 1)[-1]
                if m in CMP_CALL_OP and not c.dest[1]:
                    out.append(Cmp(body, bi, CMP_CALL_OP[m], c.args[0], c.args[1], c.dest[0], c.line, c))
    return out


def branch_of(body, cmp):
    """The SwitchInt that branches on a comparison result (following copies and
    `Not`).  Returns (switch_bb, true_target, false_target) or None."""
    cur = {cmp.dest: False}      # local -> negated?
    work = [cmp.dest]
    seen = set()
    while work:
        l = work.pop()
        if l in seen:
            continue
        seen.add(l)
        for (bb, idx, what) in body.operand_uses(l):
            if what[0] == 'switch':
                t = what[1]
                neg = cur[l]
                # switchInt(bool): vals [0] -> tgts[0] is the false target, otherwise true
                vals, tg = t['vals'], t['tgts']
                if vals == [0]:
                    f, tr = tg[0], tg[1]
                elif vals == [1]:
                    tr, f = tg[0], tg[1]
                elif vals == [0, 1]:
                    f, tr = tg[0], tg[1]
                else:
                    continue
                if neg:
                    tr, f = f, tr
                return bb, tr, f
            if what[0] == 'stmt':
                s = what[1]
                rv = s['rv']
                if s['p'][1]:
                    continue
                if rv['k'] == 'use':
                    cur[s['p'][0]] = cur[l]
                    work.append(s['p'][0])
                elif rv['k'] == 'un' and rv['op'] == 'Not':
                    cur[s['p'][0]] = not cur[l]
                    work.append(s['p'][0])
    return None


# ---------------------------------------------------------------------------
# constants

def promoted_value(unit, k):
    """For a constant operand naming a promoted body: a description of the value
    (ADT variant path, or the literal), else None."""
    if 'promoted' not in k or 'item' not in k:
        return None
    pb = unit.body('%s::promoted[%d]' % (k['item'], k['promoted']))
    if pb is None:
        return None
    vals = []
    for b in pb.blocks:
        for s in b['stmts']:
            rv = s['rv']
            if rv['k'] == 'agg' and rv.get('ak') == 'adt':
                payload = [str(const_val(o)) for o in (rv.get('ops') or []) if op_const(o)]
                vals.append('%s::%s%s' % (rv['adt'], rv['variant'], ('(%s)' % ','.join(payload)) if payload else ''))
            elif rv['k'] == 'use' and op_const(rv['op']):
                vals.append(const_val(rv['op']))
            elif rv['k'] == 'agg':
                vals.append('%s(%s)' % (rv['ak'], ','.join(str(const_val(o)) for o in rv['ops'])))
    return vals


def const_item_value(unit, k):
    """a named constant of the crate (`const MIN_TASKS: isize = 1`) used as an operand: the literal it is defined as, else None"""
    if not isinstance(k, dict) or 'item' not in k or 'promoted' in k:
        return None
    cb = unit.body(k['item'])
    if cb is None or cb.kind not in ('const', 'static'):
        return None
    for b in cb.blocks:
        for s in b['stmts']:
            if s['p'] == [0, []] and s['rv']['k'] == 'use' and op_const(s['rv']['op']) and (s['rv']['op']['k'].get('v') not in (None, '?')) and 'item' not in s['rv']['op']['k']:
                return const_val(s['rv']['op'])
    return None


def const_int_u(unit, op):
    """const_int that also knows the named constants of the crate"""
    v = const_int(op)
    if v is not None:
        return v
    k = op.get('k') if isinstance(op, dict) else None
    cv = const_item_value(unit, k) if k else None
    if cv is not None:
        return const_int({'k': {'v': cv}})
    return None


def slice_const_values(unit, sl):
    """all constant values (including promoted ones and the named constants of the crate) a slice bottoms out in"""
    out = []
    for k in sl.consts:
        pv = promoted_value(unit, k)
        cv = const_item_value(unit, k)
        if pv is not None:
            out.extend(pv)
        elif cv is not None:
            out.append(cv)
        elif 'v' in k:
            out.append(k['v'])
        elif 'fn' in k:
            out.append('fn:' + k['fn'])
    return out


# ---------------------------------------------------------------------------
# enum arms

def variant_arms(body, unit, of_local=1):
    """`match` on the enum referenced by `of_local` (e.g. *self): list of
    (switch_bb, {variant_name: target_bb}, otherwise_bb)."""
    out = []
    for bi, b in enumerate(body.blocks):
        if b['cleanup']:
            continue
        for s in b['stmts']:
            rv = s['rv']
            if rv['k'] == 'disc' and rv['p'][0] == of_local:
                dl = s['p'][0]
                ty = body.local_ty(of_local).lstrip('&').replace('mut ', '').strip()
                adt = unit.adts.get(ty)
                for (b2, i2, w2) in body.operand_uses(dl):
                    if w2[0] == 'switch':
                        t = w2[1]
                        arms = {}
                        for v, tgt in zip(t['vals'], t['tgts']):
                            name = adt['variants'][v]['name'] if adt and v < len(adt['variants']) else str(v)
                            arms[name] = tgt
                        other = t['tgts'][-1]
                        if adt and len(t['vals']) == len(adt['variants']) - 1:
                            missing = [i for i in range(len(adt['variants'])) if i not in t['vals']]
                            arms[adt['variants'][missing[0]]['name']] = other
                        out.append((b2, arms, other))
    return out


def dominated_region(body, bb):
    return {x for x, ds in body.dominators().items() if bb in ds}


def return_variants_from(body, start_bb, _depth=0):
    """variants of Result/Option aggregates assigned to the return place in blocks
    reachable from start_bb (a call of a local closure/function into the return place
    is resolved to that callee's own return variants)"""
    out = set()
    reach = body.reachable(start_bb)
    for b in reach:
        for s in body.blocks[b]['stmts']:
            if s['p'][0] == 0 and not s['p'][1]:
                rv = s['rv']
                if rv['k'] == 'agg' and rv.get('ak') == 'adt':
                    out.add(rv['variant'])
                elif rv['k'] == 'use':
                    # the value of another local (the return place of a spliced helper): what was put into it on the way from start_bb
                    l = op_local(rv['op'])
                    ds = [d for d in body.defs().get(l, []) if d[0] in reach and b in body.reachable(d[0])] if l is not None and not (op_place(rv['op']) or [0, [1]])[1] else []
                    if not ds:
                        out.add('copy')
                    for d in ds:
                        if d[2] == 'assign' and d[3]['rv']['k'] == 'agg' and d[3]['rv'].get('ak') == 'adt':
                            out.add(d[3]['rv']['variant'])
                        elif d[2] == 'call' and d[3].matches(FROM_RESIDUAL):
                            out.add('Err')
                        else:
                            out.add('copy')
        c = body.call_at(b)
        if c is not None and c.dest[0] == 0 and not c.dest[1]:
            if c.matches(FROM_RESIDUAL):
                out.add('Err')
            else:
                tgt = c.f.get('self_closure') or (c.path if c.f.get('local') else None)
                cb = body.unit.body(tgt) if tgt else None
                if cb is not None and _depth < 3:
                    out |= return_variants_from(cb, 0, _depth + 1)
                else:
                    out.add('call:' + (c.path or c.decl))
    return out


def must_pass_before(body, start, via, target):
    """every path from block `start` to block `target` passes a block in `via`"""
    via = set(via)
    if start in via:
        return True
    return target not in body.reachable(start, avoid=via)


def count_nots(body, sl):
    return sum(1 for blk in body.blocks if not blk['cleanup'] for st in blk['stmts']
               if st['p'][0] in sl.locals and st['rv']['k'] == 'un' and st['rv']['op'] == 'Not')


def switch_targets_bool(t):
    """(true_target, false_target) of a SwitchInt on a bool"""
    vals, tg = t['vals'], t['tgts']
    if vals == [0]:
        return tg[1], tg[0]
    if vals == [1]:
        return tg[0], tg[1]
    if vals == [0, 1]:
        return tg[1], tg[0]
    return None, None


def field_writes(body, field, owner_suffix=None, include_mut_borrows=False):
    """assignments whose destination place ends in field `field`: list of (bb, stmt);
    with include_mut_borrows also `&mut x.field` (a mutable borrow of the field may write it)"""
    out = []
    for bi, blk in enumerate(body.blocks):
        if blk['cleanup']:
            continue
        for s in blk['stmts']:
            fs = [e for e in s['p'][1] if isinstance(e, list) and e[0] == 'F']
            if fs and fs[-1][2] == field and (owner_suffix is None or (len(fs[-1]) > 3 and fs[-1][3].endswith(owner_suffix))):
                out.append((bi, s))
            elif include_mut_borrows and s['rv']['k'] in ('ref', 'rawptr') and s['rv'].get('mut'):
                fs = [e for e in s['rv']['p'][1] if isinstance(e, list) and e[0] == 'F']
                if fs and fs[-1][2] == field and (owner_suffix is None or (len(fs[-1]) > 3 and fs[-1][3].endswith(owner_suffix))):
                    out.append((bi, s))
    return out


def bool_set_events(body, field, owner_suffix=None):
    """The ways a bool field is switched ON without ever being switched off, in one normal form: [(block, statement, slice of the condition)]
    for `x.f |= cond` (the field OR-ed with cond) and for `if cond { x.f = true }` (the condition of the innermost switch whose true side
    dominates the write). Other writes of the field are returned with condition None."""
    out = []
    for bi, s in field_writes(body, field, owner_suffix):
        rv = s['rv']
        if rv['k'] == 'bin' and rv.get('op') == 'BitOr':
            a, b_ = direct_field(body, rv['a']), direct_field(body, rv['b'])
            if a is not None and a[0] == field and not a[2]:
                out.append((bi, s, backslice(body, [rv['b']])))
                continue
            if b_ is not None and b_[0] == field and not b_[2]:
                out.append((bi, s, backslice(body, [rv['a']])))
                continue
        if rv['k'] == 'use' and const_bool(rv['op']) is True:
            cond = None
            for d in sorted(body.dominators()[bi], key=lambda x: len(body.dominators()[x]), reverse=True):
                t = body.blocks[d]['term']
                if t['k'] != 'switch' or d == bi:
                    continue
                tt, ft = switch_targets_bool(t)
                if tt is not None and body.dominates(tt, bi) and not body.dominates(ft, bi):
                    sl = backslice(body, [t['op']])
                    if count_nots(body, sl) % 2 == 0:
                        cond = sl
                    break
            out.append((bi, s, cond))
            continue
        out.append((bi, s, None))
    return out


def option_default_events(unit, body, field, owner_suffix=None):
    """The ways an Option field gets a default only when it is None, in one normal form: [(block, slice of the default value, how)] for
    `if x.f.is_none() { x.f = Some(v) }`, `x.f.get_or_insert(v)` and `x.f.get_or_insert_with(|| v)`; any other write is returned with how = 'other'."""
    out = []

    def is_field(op):
        dd = direct_def(body, op)
        pl = dd[1] if dd[0] == 'place' else None
        if pl is None and dd[0] == 'ref':
            return False
        if pl is None:
            return False
        fs = [e for e in pl[1] if isinstance(e, list) and e[0] == 'F']
        return bool(fs) and fs[-1][2] == field and (owner_suffix is None or (len(fs[-1]) > 3 and fs[-1][3].endswith(owner_suffix)))
    for c in body.calls(r'Option::<T>::get_or_insert(_with)?$|Option<.*>::get_or_insert(_with)?$'):
        a0 = c.args[0]
        ok = is_field(a0)
        if not ok:
            # `&mut x.f` taken in a statement
            l0 = op_local(a0)
            for d_ in body.defs().get(l0, []):
                if d_[2] == 'assign' and d_[3]['rv']['k'] == 'ref':
                    fs = [e for e in d_[3]['rv']['p'][1] if isinstance(e, list) and e[0] == 'F']
                    ok = ok or (bool(fs) and fs[-1][2] == field and (owner_suffix is None or (len(fs[-1]) > 3 and fs[-1][3].endswith(owner_suffix))))
        if not ok:
            continue
        vsl = backslice(body, [c.args[1]])
        if c.path.endswith('_with'):
            calls_ = closure_calls(unit, body, vsl)
            vsl.calls = list(vsl.calls) + calls_
        out.append((c.bb, vsl, 'get_or_insert'))
    for bi, s in field_writes(body, field, owner_suffix):
        rv = s['rv']
        vsl = backslice(body, rvalue_operands(rv))
        is_some = (rv['k'] == 'agg' and rv.get('variant') == 'Some') or any(st['rv'].get('variant') == 'Some' for blk in body.blocks for st in blk['stmts'] if st['p'][0] in vsl.locals and st['rv']['k'] == 'agg')
        guard = False
        for d in body.dominators()[bi]:
            t = body.blocks[d]['term']
            if t['k'] != 'switch' or d == bi:
                continue
            kind, name = None, None
            dd = direct_def(body, t['op'])
            if dd[0] == 'call' and dd[1].matches(r'Option(::)?<.*>::(is_none|is_some)$') and dd[1].args:
                base = direct_def(body, dd[1].args[0])
                pl = base[1] if base[0] == 'place' else None
                fs = [e for e in (pl[1] if pl else []) if isinstance(e, list) and e[0] == 'F']
                if fs and fs[-1][2] == field:
                    tt, ft = switch_targets_bool(t)
                    none_side = tt if dd[1].path.endswith('is_none') else ft
                    guard = guard or body.dominates(none_side, bi)
            elif dd[0] == 'stmt' and dd[1]['rv']['k'] == 'disc':
                fs = [e for e in dd[1]['rv']['p'][1] if isinstance(e, list) and e[0] == 'F']
                if fs and fs[-1][2] == field:
                    m = dict(zip(t['vals'], t['tgts']))
                    none_side = m.get(0, t['tgts'][-1])
                    guard = guard or body.dominates(none_side, bi)
        out.append((bi, vsl, 'guarded-some' if (is_some and guard) else 'other'))
    return out


def aggregates(body, adt_suffix, variant=None):
    """(bb, stmt) of aggregate constructions of an ADT"""
    out = []
    for bi, blk in enumerate(body.blocks):
        if blk['cleanup']:
            continue
        for s in blk['stmts']:
            rv = s['rv']
            if rv['k'] == 'agg' and rv.get('ak') == 'adt' and rv['adt'].endswith(adt_suffix) and (variant is None or rv['variant'] == variant):
                out.append((bi, s))
    return out


def agg_field(stmt, name):
    rv = stmt['rv']
    for f, o in zip(rv['fields'], rv['ops']):
        if f == name:
            return o
    return None


# ---------------------------------------------------------------------------
# Short-circuit boolean normalisation (DESIGN 3.9)

def truth_table(body, atoms, max_steps=600, target_bb=None, field_owner=None):
    """atoms: dict name -> block index of the call (or comparison) producing the atom's bool.
    Folds the CFG into a truth table of the returned bool.  A branch on a value that is
    neither an atom nor a constant is explored both ways (its outcome must not matter for a
    given atom assignment, otherwise the result is 'ambiguous').
    Returns (names, {assignment tuple (True/False/None = atom not evaluated) -> result})."""
    names = sorted(atoms)
    by_bb = {}
    by_field = {}
    for n in names:
        if isinstance(atoms[n], tuple) and atoms[n][0] == 'field':
            by_field[atoms[n][1]] = n
        else:
            by_bb.setdefault(atoms[n], n)
    from itertools import product
    table = {}

    def run_from(bb, env, used, assign, steps, out, visits, hit=False):
        while steps < max_steps:
            steps += 1
            if target_bb is not None and bb == target_bb:
                out.add((True, frozenset(used)))
                return
            visits[bb] = visits.get(bb, 0) + 1
            if visits[bb] > 3:
                out.add(((False if target_bb is not None else 'loop'), frozenset(used)))
                return
            blk = body.blocks[bb]
            for s in blk['stmts']:
                d = s['p']
                if d[1]:
                    continue
                rv = s['rv']
                v = 'unknown'
                if rv['k'] == 'use':
                    cb = const_bool(rv['op'])
                    if cb is not None:
                        v = cb
                    else:
                        pl = op_place(rv['op'])
                        if pl is not None and not pl[1]:
                            v = env.get(pl[0], 'unknown')
                        elif pl is not None and by_field:
                            fs = [e for e in pl[1] if isinstance(e, list) and e[0] == 'F']
                            if fs and fs[-1][2] in by_field and (field_owner is None or (len(fs[-1]) > 3 and fs[-1][3].endswith(field_owner))):
                                v = assign[by_field[fs[-1][2]]]
                                used = used | {by_field[fs[-1][2]]}
                elif rv['k'] == 'un' and rv['op'] == 'Not':
                    l = op_local(rv['a'])
                    x = env.get(l, 'unknown') if l is not None else 'unknown'
                    v = (not x) if isinstance(x, bool) else 'unknown'
                elif rv['k'] == 'bin' and bb in by_bb and rv['op'] in CMP_BIN:
                    v = assign[by_bb[bb]]
                    used = used | {by_bb[bb]}
                env[d[0]] = v
            t = blk['term']
            k = t['k']
            if k == 'ret':
                out.add(((hit if target_bb is not None else env.get(0, 'unknown')), frozenset(used)))
                return
            if k == 'goto':
                bb = t['t']
            elif k in ('call', 'drop', 'assert'):
                if k == 'call':
                    if bb in by_bb:
                        env[t['dest'][0]] = assign[by_bb[bb]]
                        used = used | {by_bb[bb]}
                    else:
                        env[t['dest'][0]] = 'unknown'
                if t['ret'] is None:
                    out.add(((hit if target_bb is not None else 'diverges'), frozenset(used)))
                    return
                bb = t['ret']
            elif k == 'switch':
                l = op_local(t['op'])
                x = env.get(l, 'unknown')
                tt, ft = switch_targets_bool(t)
                if isinstance(x, bool) and tt is not None:
                    bb = tt if x else ft
                else:
                    for tgt in dict.fromkeys(t['tgts']):
                        if body.blocks[tgt]['term']['k'] == 'unreach':
                            continue
                        run_from(tgt, dict(env), used, assign, steps, out, dict(visits), hit)
                    return
            else:
                out.add(('diverges', frozenset(used)))
                return
        out.add(('too-long', frozenset(used)))

    for vals in product([False, True], repeat=len(names)):
        assign = dict(zip(names, vals))
        out = set()
        run_from(0, {}, frozenset(), assign, 0, out, {})
        results = {r for r, _ in out}
        used_all = set()
        for _, u in out:
            used_all |= u
        key = tuple(assign[n] if n in used_all else None for n in names)
        res = results.pop() if len(results) == 1 else 'ambiguous:%s' % sorted(map(str, results | set()))
        if key in table and table[key] != res:
            res = 'ambiguous'
        table[key] = res
    return names, table


def closure_calls(unit, body, sl):
    """calls made by the closures whose values are part of the slice (`opt.is_some_and(|x| f(x))`: f is evaluated when the combinator runs)"""
    out = []
    for l in sl.locals:
        cp = unit.closure_of_type(body.local_ty(l))
        cb = unit.body(cp) if cp else None
        if cb is not None:
            out.extend(cb.calls())
            for cp2 in unit.closures_of(cp):
                out.extend(unit.body(cp2).calls())
    return out


def guards_target(body, cmps, target_bb):
    """cmps: dict name -> Cmp (== or !=). Path-sensitive version of "the equal side of every comparison dominates target_bb": folds the CFG
    (truth_table follows bool locals through `&&` / `||` / `!` / flags) and returns name -> True iff on EVERY way to target_bb the comparison
    was evaluated and said "equal". Robust against `let ok = a == x && b == y; if ok {..}`, De Morgan, swapped branches, early returns."""
    atoms = {n: c.bb for n, c in cmps.items() if c.op in ('==', '!=')}
    if not atoms:
        return {}
    names, table = truth_table(body, atoms, target_bb=target_bb)
    res = {n: True for n in atoms}
    reached = False
    for key, r in table.items():
        may = (r is True) or (isinstance(r, str) and 'True' in r)
        if not may:
            continue
        reached = True
        for n, v in zip(names, key):
            want = (cmps[n].op == '==')
            if v is None or v != want:
                res[n] = False
    if not reached:
        return {n: False for n in atoms}
    return res


def table_equals(tt, fn):
    """tt = (names, table) from truth_table; fn(dict name->bool|None) -> expected bool.
    The expectation is evaluated with short-circuit awareness: atoms that were not
    evaluated are passed as None and fn must not need them."""
    if tt is None:
        return False, 'not a pure boolean function of the named atoms'
    names, table = tt

    class _A(dict):
        def __getitem__(self, k):
            v = dict.__getitem__(self, k)
            if v is None:
                raise TypeError(k)
            return v
    for key, res in table.items():
        a = _A(zip(names, key))
        try:
            exp = fn(a)
        except TypeError:
            return False, 'an atom needed by the reference was not evaluated on path %s' % a
        if res != exp:
            return False, 'for %s the code yields %s, the reference %s' % ({k: v for k, v in a.items() if v is not None}, res, exp)
    return True, '%d rows' % len(table)


def through_tuple(body, place):
    """`(_t.i)` where `_t = (a, b, ..)` is built once in this body (a scrutinee like `match (self.unique, self.rf_under)`): returns the operand
    that became component i together with the rest of the projection, else None"""
    if not place[1]:
        return None
    e0 = place[1][0]
    if not (isinstance(e0, list) and e0[0] == 'F' and str(e0[1] if len(e0) > 1 else '').isdigit()):
        return None
    defs = [d for d in body.defs().get(place[0], []) if d[2] == 'assign' and not d[3]['p'][1]]
    if len(defs) != 1 or len(body.defs().get(place[0], [])) != 1:
        return None
    rv = defs[0][3]['rv']
    if rv['k'] != 'agg' or rv.get('ak') != 'tuple':
        return None
    i = int(e0[1])
    if i >= len(rv['ops']):
        return None
    op = rv['ops'][i]
    q = op_place(op)
    if q is None:
        return (op, [])
    rest = place[1][1:]
    return ({'c': [q[0], list(q[1]) + list(rest)]}, rest)


def direct_field(body, operand, max_hops=9):
    """If `operand` is (a copy of) a direct read of a struct field, return (field name, owner ADT, negated?)"""
    neg = False
    op = operand
    for _ in range(max_hops):
        p = op_place(op)
        if p is None:
            return None
        tt_ = through_tuple(body, p)
        if tt_ is not None:
            op = tt_[0]
            continue
        fs = [e for e in p[1] if isinstance(e, list) and e[0] == 'F']
        if fs:
            return fs[-1][2], (fs[-1][3] if len(fs[-1]) > 3 else ''), neg
        defs = [d for d in body.defs().get(p[0], []) if d[2] == 'assign']
        if len(defs) != 1:
            return None
        rv = defs[0][3]['rv']
        if rv['k'] == 'use':
            op = rv['op']
        elif rv['k'] in ('ref', 'rawptr'):
            op = {'c': rv['p']}
        elif rv['k'] == 'un' and rv['op'] == 'Not':
            neg = not neg
            op = rv['a']
        else:
            return None
    return None


def direct_def(body, operand, max_hops=6):
    """Follow single-definition copies/moves of an operand; returns ('call', Call) | ('ref', base_local) |
    ('const', k) | ('local', l) - the first non-trivial definition."""
    op = operand
    for _ in range(max_hops):
        p = op_place(op)
        if p is None:
            return ('const', op_const(op))
        if p[1] and p[1] != ['*']:
            tt_ = through_tuple(body, p)
            if tt_ is not None:
                op = tt_[0]
                continue
            return ('place', p)
        defs = body.defs().get(p[0], [])
        if len(defs) != 1:
            return ('local', p[0])
        d = defs[0]
        if d[2] == 'call':
            return ('call', d[3])
        rv = d[3]['rv']
        if rv['k'] == 'use':
            op = rv['op']
        elif rv['k'] in ('ref', 'rawptr'):
            q = rv['p']
            if not q[1] or q[1] == ['*']:
                op = {'c': [q[0], []]}
                if not body.defs().get(q[0]) or len(body.defs().get(q[0])) != 1 or body.local_name(q[0]):
                    return ('ref', q[0])
            else:
                return ('place', q)
        else:
            return ('stmt', d[3])
    return ('local', op_local(op))


def base_named_local(body, operand, max_hops=8):
    """the user-named local an operand refers to through refs / derefs / copies (no calls), else None"""
    op = operand
    for _ in range(max_hops):
        p = op_place(op)
        if p is None:
            return None
        if body.local_name(p[0]):
            return p[0]
        defs = [d for d in body.defs().get(p[0], [])]
        if len(defs) != 1 or defs[0][2] != 'assign':
            if len(defs) == 1 and defs[0][2] == 'call' and defs[0][3].matches(r'Deref(Mut)?>::deref(_mut)?$'):
                op = defs[0][3].args[0]
                continue
            return None
        rv = defs[0][3]['rv']
        if rv['k'] == 'use':
            op = rv['op']
        elif rv['k'] in ('ref', 'rawptr'):
            op = {'c': rv['p']}
        else:
            return None
    return None


# ---------------------------------------------------------------------------
# Path rules that respect correlated tests of one Result value

def result_tests(body, call):
    """All branches that test the Result produced by `call` (match / if let / `?` / is_ok / is_err,
    also on copies and references): {switch_bb: {'ok': target, 'err': target}}"""
    tests = {}
    holders = forward_locals(body, call.dest[0], through_calls=lambda c, ai: ai == 0 and c.matches(PASS_METHODS) and is_result_ty(c.dty))

    def add_disc_switch(dl, ok_val, err_val):
        for (b2, i2, w2) in body.operand_uses(dl):
            if w2[0] == 'switch':
                t = w2[1]
                m = dict(zip(t['vals'], t['tgts']))
                other = t['tgts'][-1]
                ok_t = m.get(ok_val, other)
                err_t = m.get(err_val, other)
                if body.blocks[ok_t]['term']['k'] == 'unreach' or body.blocks[err_t]['term']['k'] == 'unreach':
                    continue
                tests[b2] = {'ok': ok_t, 'err': err_t}
    for l in holders:
        for (bb, idx, what) in body.operand_uses(l):
            if what[0] == 'stmt' and what[1]['rv']['k'] == 'disc' and what[1]['rv']['p'][0] == l and (not what[1]['rv']['p'][1] or what[1]['rv']['p'][1] == ['*']):
                add_disc_switch(what[1]['p'][0], 0, 1)
            elif what[0] == 'callarg':
                c = what[1]
                if c.matches(TRY_BRANCH):
                    for (b3, i3, w3) in body.operand_uses(c.dest[0]):
                        if w3[0] == 'stmt' and w3[1]['rv']['k'] == 'disc':
                            add_disc_switch(w3[1]['p'][0], 0, 1)
                elif c.matches(r'Result(::)?<.*>::(is_ok|is_err)$'):
                    neg = c.path.endswith('is_err')
                    for (b3, i3, w3) in body.operand_uses(c.dest[0]):
                        if w3[0] == 'switch':
                            tt, ft = switch_targets_bool(w3[1])
                            if tt is None:
                                continue
                            tests[b3] = {'ok': ft if neg else tt, 'err': tt if neg else ft}
    return tests


def reachable_state(body, start, tests, state, avoid=()):
    """blocks reachable from start when every test in `tests` takes its `state` ('ok'/'err') edge"""
    avoid = set(avoid)
    seen = set()
    st = [start] if start not in avoid else []
    while st:
        x = st.pop()
        if x in seen:
            continue
        seen.add(x)
        succ = [tests[x][state]] if x in tests else body.succs(x)
        for s_ in succ:
            if s_ not in seen and s_ not in avoid:
                st.append(s_)
    return seen


def must_pass_state(body, start, tests, state, via):
    """every path from start to a return, with the tests resolved to `state`, passes a block in `via`"""
    via = set(via)
    if start in via:
        return True, None
    r = reachable_state(body, start, tests, state, avoid=via)
    rets = set(body.return_blocks()) & r
    return (not rets), (sorted(rets)[0] if rets else None)


def return_variants_state(body, start, tests, state, subject=None):
    """subject: the local that holds the tested Result - returning that very value (`let r = f(); if r.is_ok() {..} else {..}; r`)
    returns what the state says it is"""
    out = set()
    same = forward_locals(body, subject) if subject is not None else set()
    for b in reachable_state(body, start, tests, state):
        for s_ in body.blocks[b]['stmts']:
            if s_['p'][0] == 0 and not s_['p'][1]:
                rv = s_['rv']
                if rv['k'] == 'agg' and rv.get('ak') == 'adt':
                    out.add(rv['variant'])
                elif rv['k'] == 'use' and op_local(rv['op']) in same and not (op_place(rv['op']) or [0, []])[1]:
                    out.add('Err' if state == 'err' else 'Ok')
        c = body.call_at(b)
        if c is not None and c.dest[0] == 0 and not c.dest[1] and c.matches(FROM_RESIDUAL):
            out.add('Err')
    return out

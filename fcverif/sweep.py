"""Crate-wide sweeps of the generic lints (thorough tier).  Out-of-anchor hits are printed as NOTE, never as violations."""
import re
from .rules.common import err_handling, io_result
from .units import unit_of, str_index_sinks, chars_take_sinks
from .analysis import comparisons, backslice, branch_of


def is_test(b):
    return bool(re.search(r'(^|::|<)tests?(::|$)', b.path)) or b.kind in ('const', 'static', 'promoted') or b.derived


def error_discipline(ctx, rule, skip_files=()):
    n = 0
    hits = 0
    for b in ctx.lib.bodies.values():
        if is_test(b) or b.file.endswith(tuple(skip_files)):
            continue
        for c in b.calls():
            if c.exp and not c.f.get('local'):
                continue
            if not io_result(c) or c.matches(r'Result(::)?<.*>::|as std::ops::Try>::|FromResidual|std::convert::|Iterator|Option(::)?<.*>::|std::io::Error::|Write>::write|fmt::|^std::io::Write::|Write::(write|flush)'):
                continue
            n += 1
            cat, det = err_handling(b, c)
            if cat in ('DISCARDED', 'PANICS', 'HANDLED-ARM'):
                hits += 1
                ctx.note(rule, c.where(), 'sweep: %s of %s in %s is %s (%s)' % ('result', c.path.rsplit('::', 1)[-1], b.path, cat, det[:80]))
    ctx.stats[rule + ':sweep-io-results-outside-anchor'] = n
    ctx.stats[rule + ':sweep-hits'] = hits


def units(ctx, rule):
    n = 0
    hits = 0
    for b in ctx.lib.bodies.values():
        if is_test(b):
            continue
        for c, ops in str_index_sinks(b):
            for o in ops:
                n += 1
                u, cs = unit_of(b, o)
                if u in ('CHARS', 'MIXED'):
                    hits += 1
                    ctx.note(rule, c.where(), 'sweep: string slice indexed by a %s value in %s' % (u, b.path))
        for c, o in chars_take_sinks(b):
            n += 1
            u, cs = unit_of(b, o)
            if u in ('BYTES', 'MIXED'):
                hits += 1
                ctx.note(rule, c.where(), 'sweep: chars().%s(n) with a %s value in %s' % (c.path.rsplit('::', 1)[-1], u, b.path))
    ctx.stats[rule + ':sweep-unit-sinks'] = n
    ctx.stats[rule + ':sweep-hits'] = hits


def subtractions(ctx, rule):
    """unsigned subtractions (u64/usize) whose operands are not constants and that no comparison of the same operands dominates"""
    n = 0
    hits = 0
    for b in ctx.lib.bodies.values():
        if is_test(b) or not b.file.endswith(('group.rs', 'hasher.rs', 'file.rs', 'dedupe.rs', 'walk.rs', 'cache.rs', 'transform.rs', 'report.rs', 'arg.rs', 'regex.rs')):
            continue
        cmps = None
        for bi, blk in enumerate(b.blocks):
            if blk['cleanup']:
                continue
            for s in blk['stmts']:
                rv = s['rv']
                if rv['k'] == 'bin' and rv['op'] in ('Sub', 'SubWithOverflow') and not s.get('exp'):
                    from .facts import op_local, const_int
                    la, lb = op_local(rv['a']), op_local(rv['b'])
                    if la is None or lb is None:
                        continue
                    if b.local_ty(la) not in ('u64', 'usize', 'u32'):
                        continue
                    n += 1
                    if cmps is None:
                        cmps = comparisons(b)
                    sa, sb = backslice(b, [rv['a']]), backslice(b, [rv['b']])
                    guarded = False
                    for cmp in cmps:
                        x, y = backslice(b, [cmp.a]), backslice(b, [cmp.b])
                        if (x.locals & sa.locals and y.locals & sb.locals) or (x.locals & sb.locals and y.locals & sa.locals):
                            br = branch_of(b, cmp)
                            if br and (b.dominates(br[1], bi) or b.dominates(br[2], bi)):
                                guarded = True
                    clamp = any(c.matches(r'^std::cmp::min$|Ord::min$|saturating_sub$') for c in sb.calls + sa.calls)
                    if not guarded and not clamp:
                        hits += 1
                        ctx.note(rule, b.where(s['line']), 'sweep: unsigned subtraction in %s without a dominating comparison or clamp of its operands' % b.path)
    ctx.stats[rule + ':sweep-unsigned-subtractions'] = n
    ctx.stats[rule + ':sweep-hits'] = hits


def buffered(ctx, rule, skip_files=()):
    from .rules.common import buffered_drop_discipline
    bodies = [b for b in ctx.lib.bodies.values() if not is_test(b) and not b.file.endswith(tuple(skip_files))]
    n = buffered_drop_discipline(ctx, rule, bodies, armed=False)
    ctx.stats[rule + ':sweep-buffered-drops-outside-anchor'] = n


# unwrap()/expect() whose operand is computed from data that comes from outside the program (a path or line that was read, a value
# that was parsed, a system call): the abort of the whole run is what C15 ("affects only itself") forbids.  Lock poisoning, thread
# joins, channels, literal regexes and iterator arithmetic are program-internal and not listed.
EXTERNAL_SRC = (r'CString::new$|::from_utf8$|::into_string$|::to_str$|::parse$|FromStr>::from_str$|Captures.*::get$|::captures$|::file_name$|::parent$|'
                r'std::env::|std::fs::|::metadata$|::read_u128$|::strip_prefix$|::canonicalize$|::read_link$|BufRead')
INTERNAL_SRC = r'Mutex.*::lock$|Condvar::|JoinHandle|mpsc::|crossbeam|ThreadPoolBuilder|Option::<T>::take$|Cell::<T>::take$|PriorityQueue'


def panics(ctx, rule):
    n = 0
    hits = 0
    for b in ctx.lib.bodies.values():
        if is_test(b) or '/.cargo/' in b.file:
            continue
        for c in b.calls(r'::(unwrap|expect)$'):
            if c.exp and not c.f.get('local'):
                continue
            if not c.args:
                continue
            n += 1
            sl = backslice(b, [c.args[0]])
            src = [k for k in sl.calls if k.bb != c.bb]
            ext = [k for k in src if k.matches(EXTERNAL_SRC)]
            if not src and b.kind == 'closure':
                ext = ['(closure parameter)']
            if ext and not any(k.matches(INTERNAL_SRC) for k in src):
                hits += 1
                what = ext[0] if isinstance(ext[0], str) else ext[0].path.rsplit('::', 2)[-2] + '::' + ext[0].path.rsplit('::', 1)[-1]
                ctx.note(rule, c.where(), 'sweep: %s in %s aborts the run when %s fails' % (c.path.rsplit('::', 1)[-1], b.path, what))
    ctx.stats[rule + ':sweep-unwrap-sites'] = n
    ctx.stats[rule + ':sweep-unwrap-on-external-data'] = hits


# Two looks at one path, the second one taken because the first said "not there": whatever is concluded from their disagreement races with every
# other thread and process that creates or removes the path (D101: a directory created by another worker between metadata() and symlink_metadata()
# was taken for a dangling link).  Listed as NOTE in the thorough tier.
STAT_CALLS = (r'^std::path::Path::(exists|try_exists|metadata|symlink_metadata|is_file|is_dir|is_symlink)$|^std::fs::(metadata|symlink_metadata|exists)$|'
              r'path::Path::(canonicalize)$|FileMetadata::new$|FileId::new$')


def double_stat(ctx, rule):
    from .analysis import result_tests, base_named_local
    n = 0
    hits = 0
    for b in ctx.lib.bodies.values():
        if is_test(b) or '/.cargo/' in b.file:
            continue
        stats = b.calls(STAT_CALLS)
        if len(stats) < 2:
            continue
        n += 1
        for c1 in stats:
            t1 = result_tests(b, c1)
            for sw_bb, t_ in t1.items():
                for c2 in stats:
                    if c2.bb == c1.bb or not b.dominates(t_['err'], c2.bb):
                        continue
                    def named(c):
                        sl = backslice(b, c.args[:1])
                        return {b.local_name(l) for l in sl.locals if b.local_name(l)} - {'self'}
                    same = named(c1) & named(c2)
                    # an ancestor of the path is another path
                    if backslice(b, c1.args[:1]).has_call(r'::parent$') != backslice(b, c2.args[:1]).has_call(r'::parent$'):
                        same = set()
                    if same:
                        hits += 1
                        ctx.note(rule, c2.where(), 'sweep: `%s` is examined again (%s) on the path where %s said it is not there, in %s: a conclusion drawn from the two answers races with whoever creates the path'
                                 % (sorted(same)[0], c2.path.rsplit('::', 1)[-1], c1.path.rsplit('::', 1)[-1], b.path))
    ctx.stats[rule + ':sweep-bodies-with-two-stats'] = n
    ctx.stats[rule + ':sweep-double-stat'] = hits

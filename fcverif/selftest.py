"""Checker self-test (thorough tier): every catalogued mutant of the property must be reported.

Mutants are patches that keep /repo compiling and its 174 tests green: the reverse of each `fix:` commit
(/verif/mutants/<rule>-revert-<Dn>.patch), hand-written single-instance breaks, and the confirmed breaking
changes produced by independent sub-agents (/verif/seeded/<id>/patch.diff).  Each is applied to a scratch
copy of /repo's current tree outside /repo and /verif, facts are re-extracted there and the property's rules
must exit with a violation.  A surviving mutant is a CHECKER-GAP (printed, recorded in the evidence) - it is
not a property violation of /repo."""
import os, sys, json, glob, shutil, subprocess, tempfile, time

VERIF = os.path.dirname(os.path.dirname(os.path.abspath(__file__)))


def catalogue(prop):
    out = []
    for p in sorted(glob.glob(os.path.join(VERIF, 'mutants', '%s.*.patch' % prop))):
        out.append((os.path.basename(p)[:-6], p))
    for d in sorted(glob.glob(os.path.join(VERIF, 'seeded', '*'))):
        mp = os.path.join(d, 'meta.json')
        if not os.path.exists(mp):
            continue
        try:
            meta = json.load(open(mp))
        except Exception:
            continue
        props = set([meta.get('property')] + list(meta.get('detected_by', {}).keys()))
        if prop in props and meta.get('detected_by', {}).get(prop, True):
            out.append(('seeded/' + os.path.basename(d), os.path.join(d, 'patch.diff')))
    return out


def run(prop, quiet=False):
    cat = catalogue(prop)
    if not cat:
        print('SELFTEST %s: no mutants catalogued' % prop)
    repo = os.environ.get('FCVERIF_REPO', '/repo')
    results = []
    for name, patch in cat:
        scratch = tempfile.mkdtemp(prefix='fcverif-mut-')
        try:
            dst = os.path.join(scratch, 'repo')
            shutil.copytree(repo, dst, ignore=shutil.ignore_patterns('target', '.git'), symlinks=True)
            r = subprocess.run(['git', 'apply', '--unsafe-paths', '--directory', dst, patch], cwd='/', capture_output=True, text=True)
            if r.returncode != 0:
                r = subprocess.run(['patch', '-p1', '-s', '-f', '-i', patch], cwd=dst, capture_output=True, text=True)
            if r.returncode != 0:
                results.append((name, 'patch-does-not-apply', ''))
                continue
            env = dict(os.environ, FCVERIF_REPO=dst, FCVERIF_NO_EVIDENCE='1', FCVERIF_NO_SELFTEST='1')
            t0 = time.time()
            r = subprocess.run([sys.executable, '-m', 'fcverif', prop, '--tier', 'quick'], cwd=VERIF, env=env, capture_output=True, text=True)
            fails = [l for l in r.stdout.splitlines() if l.startswith('FAIL')]
            if r.returncode == 1 and fails:
                results.append((name, 'killed', fails[0][:200]))
            elif r.returncode == 2:
                results.append((name, 'does-not-build', r.stdout[-300:]))
            else:
                results.append((name, 'survived', ''))
        finally:
            shutil.rmtree(scratch, ignore_errors=True)
    # behaviour-preserving variants of this property must stay silent
    benign = []
    for bp in sorted(glob.glob(os.path.join(VERIF, 'benign', '*%s*.patch' % prop))):
        name = 'benign/' + os.path.basename(bp)[:-6]
        scratch = tempfile.mkdtemp(prefix='fcverif-bn-')
        try:
            dst = os.path.join(scratch, 'repo')
            shutil.copytree(repo, dst, ignore=shutil.ignore_patterns('target', '.git'), symlinks=True)
            r = subprocess.run(['patch', '-p1', '-s', '-f', '-i', bp], cwd=dst, capture_output=True, text=True)
            if r.returncode != 0:
                benign.append((name, 'patch-does-not-apply', ''))
                continue
            env = dict(os.environ, FCVERIF_REPO=dst, FCVERIF_NO_EVIDENCE='1', FCVERIF_NO_SELFTEST='1')
            r = subprocess.run([sys.executable, '-m', 'fcverif', prop, '--tier', 'quick'], cwd=VERIF, env=env, capture_output=True, text=True)
            fails = [l for l in r.stdout.splitlines() if l.startswith(('FAIL', 'BUILD'))]
            benign.append((name, 'silent' if r.returncode == 0 else 'false-alarm', fails[0][:200] if fails else ''))
        finally:
            shutil.rmtree(scratch, ignore_errors=True)
    for name, s, d in benign:
        print('%s %s %s %s' % ('BENIGN-SILENT' if s == 'silent' else ('CHECKER-FALSE-ALARM' if s == 'false-alarm' else 'BENIGN-SKIPPED'), prop, name, d))
    killed = sum(1 for _, s, _ in results if s == 'killed')
    for name, s, d in results:
        tag = 'MUTANT-KILLED' if s == 'killed' else ('CHECKER-GAP' if s == 'survived' else 'MUTANT-SKIPPED')
        print('%s %s %s %s' % (tag, prop, name, d))
    print('SELFTEST %s: %d/%d mutants killed' % (prop, killed, len(results)))
    # add to the evidence of this run
    evp = os.path.join(VERIF, 'evidence', '%s.json' % prop)
    try:
        ev = json.load(open(evp))
        ev['coverage']['mutants_total'] = len(results)
        ev['coverage']['mutants_killed'] = killed
        ev['coverage']['mutants'] = [{'name': n, 'outcome': s, 'first_report': d} for n, s, d in results]
        ev['coverage']['benign_total'] = len(benign)
        ev['coverage']['benign_silent'] = sum(1 for _, s, _ in benign if s == 'silent')
        ev['coverage']['benign'] = [{'name': n, 'outcome': s, 'report': d} for n, s, d in benign]
        json.dump(ev, open(evp, 'w'), indent=1)
    except Exception as e:
        print('could not update evidence: %s' % e)
    return 0

"""Field-based inter-procedural label propagation (DESIGN 3.4).

Flow-insensitive, context-insensitive inclusion graph over abstract locations:
  ('L', body_key, local)          body locals (return place = local 0)
  ('F', adt, variant, field)      fields of the crate's own ADTs (all instances merged)
  ('U', closure_key, index)       closure up-vars
  ('S', item)                     statics / consts
Labels are carried only by types that can hold a path or a string.  A label reaching
a node = some seed node reaches it in the graph; the BFS parent chain is the witness.
Two modes: 'origin' (reading x.f yields the field location only) and 'role' (objects
carry labels: reading x.f also yields the labels of x)."""
import re
from collections import defaultdict, deque
from .facts import Call, op_place, op_const, rvalue_operands
from .callgraph import CallGraph, sink_kind

NONCARRIER = re.compile(
    r'^(u8|u16|u32|u64|u128|usize|i8|i16|i32|i64|i128|isize|bool|char|f32|f64|\(\)|!|'
    r'file::FileLen|file::FilePos|file::FileHash|file::FileId|file::FileMetadata|std::fs::Metadata|std::fs::FileType|std::fs::Permissions|'
    r'std::time::\w+|chrono::.*|std::io::ErrorKind|std::cmp::Ordering|device::\w+|hasher::HashFn|config::(OutputFormat|Parallelism|Priority)|'
    r'semaphore::\w+|std::sync::atomic::\w+|phase::\w+|progress::\w+|std::process::ExitStatus|uuid::Uuid|std::thread::.*|rand::.*|'
    r'regex::Regex|pattern::Pattern(Opts)?|selector::PathSelector|std::ops::Range<(usize|u64)>|std::alloc::.*|std::marker::.*|libc::\w+|nix::.*|'
    r'std::fmt::Formatter<.*>|std::fmt::Error|\[u8; \d+\]|walk::EntryType|dedupe::DedupeResult|std::convert::Infallible)$')

TRANSPARENT_FILES = ('path.rs', 'arg.rs', 'util.rs', 'pattern.rs', 'regex.rs', 'error.rs', 'phase.rs', 'progress.rs')


def strip_ty(t):
    t = t.strip()
    changed = True
    while changed:
        changed = False
        for pre in ('&mut ', '&', '*const ', '*mut ', 'mut '):
            if t.startswith(pre):
                t = t[len(pre):].strip()
                changed = True
        m = re.match(r"^'\w+ (.*)$", t)
        if m:
            t = m.group(1)
            changed = True
    return t


def carries(t):
    t = strip_ty(t)
    if NONCARRIER.match(t):
        return False
    m = re.match(r'^(?:std::option::Option|std::boxed::Box|std::sync::Arc|std::rc::Rc|std::vec::Vec|std::cell::RefCell|std::cell::Cell|std::sync::Mutex)<(.*)>$', t)
    if m:
        return carries(m.group(1))
    m = re.match(r'^std::result::Result<(.*)>$', t)
    if m:
        inner = m.group(1)
        # first generic argument (up to the top-level comma)
        depth = 0
        for i, ch in enumerate(inner):
            if ch in '<([':
                depth += 1
            elif ch in '>)]':
                depth -= 1
            elif ch == ',' and depth == 0:
                return carries(inner[:i])
        return carries(inner)
    return True


class Flow:
    def __init__(self, units, mode='origin', cg=None):
        self.units = units
        self.mode = mode
        self.cg = cg or CallGraph(units)
        self.local_adts = set()
        for u in units:
            self.local_adts.update(u.adts.keys())
        self.edges = defaultdict(set)
        self.why = {}                       # (src, dst) -> where string
        self.seeds = defaultdict(set)       # label -> set(nodes)
        self.closure_by_ty = {}
        self.atomic = {'path::Path', 'arg::Arg'}    # value types whose fields are not tracked
        for k, b in self.cg.bodies.items():
            for blk in b.blocks:
                for s in blk['stmts']:
                    rv = s['rv']
                    if rv['k'] == 'agg' and rv.get('ak') == 'closure' and not s['p'][1]:
                        ck = self.cg._resolve_local(b.unit, rv['def'])
                        if ck:
                            self.closure_by_ty[(k, b.local_ty(s['p'][0]))] = ck
                            self.closure_by_ty.setdefault(b.local_ty(s['p'][0]), ck)
        self._indirect_cache = {}
        for k, b in self.cg.bodies.items():
            self._scan(k, b)
        self.labels = None

    # ---- node helpers
    def is_local_adt(self, owner):
        o = re.sub(r'^fclones::', '', owner or '')
        return o in self.local_adts and o not in self.atomic

    def place_read(self, k, b, p):
        """nodes whose labels a read of place p yields"""
        base = ('L', k, p[0])
        if b.kind == 'closure' and p[0] == 1:
            for e in p[1]:
                if isinstance(e, list) and e[0] == 'F':
                    if len(e) > 3 and e[3] == '{closure}':
                        rest_nodes = self._proj_after(k, b, p, ('U', k, e[1]), e)
                        return rest_nodes
                    break
        nodes = [base]
        var = None
        out = [base] if not p[1] else None
        cur = [base]
        for e in p[1]:
            if isinstance(e, list) and e[0] == 'D':
                var = e[2]
            elif isinstance(e, list) and e[0] == 'F':
                owner = e[3] if len(e) > 3 else ''
                if self.is_local_adt(owner):
                    f = ('F', re.sub(r'^fclones::', '', owner), var or '', e[2])
                    cur = ([f] + cur) if self.mode == 'role' else [f]
                var = None
        return cur

    def _proj_after(self, k, b, p, upnode, upelem):
        cur = [upnode]
        seen_up = False
        var = None
        for e in p[1]:
            if e is upelem:
                seen_up = True
                continue
            if not seen_up:
                continue
            if isinstance(e, list) and e[0] == 'D':
                var = e[2]
            elif isinstance(e, list) and e[0] == 'F':
                owner = e[3] if len(e) > 3 else ''
                if self.is_local_adt(owner):
                    f = ('F', re.sub(r'^fclones::', '', owner), var or '', e[2])
                    cur = ([f] + cur) if self.mode == 'role' else [f]
                var = None
        return cur

    def place_write(self, k, b, p):
        """nodes a write to place p adds to"""
        # innermost local-ADT field wins; else the base local (object semantics)
        var = None
        tgt = None
        for e in p[1]:
            if isinstance(e, list) and e[0] == 'D':
                var = e[2]
            elif isinstance(e, list) and e[0] == 'F':
                owner = e[3] if len(e) > 3 else ''
                if self.is_local_adt(owner):
                    tgt = ('F', re.sub(r'^fclones::', '', owner), var or '', e[2])
                elif owner == '{closure}' and b.kind == 'closure' and p[0] == 1:
                    tgt = ('U', k, e[1])
                var = None
        if tgt is not None:
            return [tgt]
        return [('L', k, p[0])]

    def op_read(self, k, b, o):
        p = op_place(o)
        if p is not None:
            return self.place_read(k, b, p)
        c = op_const(o)
        if c and ('item' in c or 'static' in c) and 'promoted' not in c:
            return [('S', c.get('static') or c.get('item'))]
        return []

    def node_ty(self, n):
        if n[0] == 'L':
            b = self.cg.bodies.get(n[1])
            if b is not None and n[2] < len(b.locals):
                return b.local_ty(n[2])
        if n[0] == 'F':
            for u in self.units:
                a = u.adts.get(n[1])
                if a:
                    for v in a['variants']:
                        if not n[2] or v['name'] == n[2] or not a['enum']:
                            for fn_, ft in v['fields']:
                                if fn_ == n[3]:
                                    return ft
        return None

    def edge(self, src_nodes, dst_nodes, where):
        for s in src_nodes:
            ts = self.node_ty(s)
            if ts is not None and not carries(ts):
                continue
            for d in dst_nodes:
                td = self.node_ty(d)
                if td is not None and not carries(td):
                    continue
                if s != d:
                    self.edges[s].add(d)
                    self.why.setdefault((s, d), where)

    # ---- constraint generation
    def transparent(self, key):
        b = self.cg.bodies.get(key)
        if b is None:
            return False
        if b.derived and b.path.endswith(('::clone', '::eq', '::cmp', '::partial_cmp', '::hash', '::fmt', '::default', '::ne')):
            return True
        if b.file.endswith(TRANSPARENT_FILES):
            return True
        return False

    def _scan(self, k, b):
        for bi, blk in enumerate(b.blocks):
            if blk['cleanup']:
                continue
            for s in blk['stmts']:
                where = '%s:%d (%s)' % (b.file, s['line'], b.path)
                rv = s['rv']
                kind = rv['k']
                dst = self.place_write(k, b, s['p'])
                if kind in ('use', 'cast', 'repeat'):
                    self.edge(self.op_read(k, b, rv['op']), dst, where)
                elif kind in ('ref', 'rawptr'):
                    src = self.place_read(k, b, rv['p'])
                    self.edge(src, dst, where)
                    if rv.get('mut'):
                        # a write through the reference reaches the referent
                        self.edge(dst, self.place_write(k, b, rv['p']), where)
                elif kind in ('bin', 'un'):
                    pass
                elif kind == 'agg':
                    ak = rv.get('ak')
                    if ak == 'adt' and self.is_local_adt(rv['adt']):
                        adt = re.sub(r'^fclones::', '', rv['adt'])
                        a = None
                        for u in self.units:
                            a = a or u.adts.get(adt)
                        var = rv['variant'] if (a and a['enum']) else ''
                        for f, o in zip(rv['fields'], rv['ops']):
                            self.edge(self.op_read(k, b, o), [('F', adt, var, f)], where)
                        if self.mode == 'role':
                            pass
                    elif ak == 'closure':
                        ck = self.cg._resolve_local(b.unit, rv['def'])
                        for i, o in enumerate(rv['ops']):
                            if ck:
                                self.edge(self.op_read(k, b, o), [('U', ck, i)], where)
                    else:
                        for o in rv['ops']:
                            self.edge(self.op_read(k, b, o), dst, where)
            t = blk['term']
            if t['k'] == 'call':
                self._call(k, b, Call(b, bi, t))

    def _closures_in_args(self, k, b, c):
        out = []
        for i, a in enumerate(c.args):
            p = op_place(a)
            if p is None:
                cst = op_const(a)
                if cst and 'fn' in cst:
                    fk = self.cg.by_canon.get(cst.get('fn_canon')) or self.cg._resolve_local(b.unit, cst['fn'])
                    if fk:
                        out.append((i, fk, 'fn'))
                continue
            ty = strip_ty(b.local_ty(p[0])) if not p[1] else None
            if ty and '{closure@' in ty:
                ck = self.closure_by_ty.get((k, ty)) or self.closure_by_ty.get(ty)
                if ck:
                    out.append((i, ck, 'closure'))
        return out

    def _bind_local(self, k, b, c, target, where, closure_call=False):
        tb = self.cg.bodies[target]
        if self.transparent(target):
            srcs = []
            for a in c.args:
                srcs += self.op_read(k, b, a)
            self.edge(srcs, self.place_write(k, b, c.dest), where)
            return
        if closure_call or (tb.kind == 'closure' and len(c.args) == 2 and tb.argc != len(c.args)):
            # closure call ABI: (env, (args..)) -> params 1, 2..
            self.edge(self.op_read(k, b, c.args[0]), [('L', target, 1)], where)
            if len(c.args) > 1:
                tup = self.op_read(k, b, c.args[1])
                for i in range(2, tb.argc + 1):
                    self.edge(tup, [('L', target, i)], where)
        else:
            for i, a in enumerate(c.args):
                if i + 1 <= tb.argc:
                    self.edge(self.op_read(k, b, a), [('L', target, i + 1)], where)
        self.edge([('L', target, 0)], self.place_write(k, b, c.dest), where)

    def _call(self, k, b, c):
        where = '%s:%d (%s)' % (b.file, c.line, b.path)
        f = c.f
        targets = []
        tk = self.cg.target_of(c)
        if tk is None and f.get('res') and f.get('path'):
            tk = self.cg._resolve_local(b.unit, f['path'])
        closure_call = False
        if f.get('self_closure'):
            ck = self.cg.by_canon.get(f.get('self_closure_canon')) or self.cg._resolve_local(b.unit, f['self_closure'])
            if ck:
                targets.append((ck, True))
                tk = None
        if tk is not None and tk in self.cg.bodies:
            targets.append((tk, self.cg.bodies[tk].kind == 'closure'))
        if not targets and not f.get('res') and f.get('trait') and f.get('method'):
            if f['method'] in ('call', 'call_mut', 'call_once') and f['trait'].split('::')[-1] in ('Fn', 'FnMut', 'FnOnce'):
                for ck in self.indirect_targets(k, b, c):
                    targets.append((ck, self.cg.bodies[ck].kind == 'closure'))
            else:
                for ik in self.cg.impl_methods.get((f['trait'], f['method']), []):
                    targets.append((ik, False))
        if targets:
            for tk_, cc in targets:
                self._bind_local(k, b, c, tk_, where, closure_call=cc)
            return
        # external callee: all arguments -> result and -> the referent of &mut arguments
        srcs = []
        for a in c.args:
            srcs += self.op_read(k, b, a)
        dst = self.place_write(k, b, c.dest)
        self.edge(srcs, dst, where)
        tys = c.t.get('argtys') or []
        for i, a in enumerate(c.args):
            if i < len(tys) and tys[i].startswith('&mut') and op_place(a) is not None:
                others = []
                for j, a2 in enumerate(c.args):
                    if j != i:
                        others += self.op_read(k, b, a2)
                self.edge(others, self.place_write(k, b, op_place(a)), where)
                # interior: RefCell::replace etc take &self
            elif i == 0 and i < len(tys) and re.search(r'RefCell|Mutex|Cell|OnceCell|Lazy', tys[0]) and op_place(a) is not None:
                others = []
                for j, a2 in enumerate(c.args):
                    if j != i:
                        others += self.op_read(k, b, a2)
                self.edge(others, self.place_write(k, b, op_place(a)), where)
        # higher-order externals: arguments -> parameters of the closures handed in, their result -> our result
        for (i, ck, kind) in self._closures_in_args(k, b, c):
            cb = self.cg.bodies[ck]
            others = []
            for j, a2 in enumerate(c.args):
                if j != i:
                    others += self.op_read(k, b, a2)
            first = 2 if kind == 'closure' else 1
            for pi in range(first, cb.argc + 1):
                self.edge(others, [('L', ck, pi)], where)
            self.edge([('L', ck, 0)], dst, where)
            if kind == 'closure':
                self.edge(self.op_read(k, b, c.args[i]), [('L', ck, 1)], where)

    def indirect_targets(self, k, b, c):
        """closures that a call through an Fn-typed parameter/up-var may invoke"""
        key = (k, c.bb)
        if key in self._indirect_cache:
            return self._indirect_cache[key]
        from .analysis import backslice, upvar_operand
        out = set()
        seen = set()
        work = [(b, [c.args[0]])]
        steps = 0
        while work and steps < 40:
            steps += 1
            cur_b, ops = work.pop()
            ck_ = self.cg._key(cur_b.unit, cur_b.path)
            sl = backslice(cur_b, ops)
            for l in sl.locals:
                ty = strip_ty(cur_b.local_ty(l))
                if '{closure@' in ty:
                    t = self.closure_by_ty.get((ck_, ty)) or self.closure_by_ty.get(ty)
                    if t:
                        out.add(t)
            for kc in sl.consts:
                if 'fn' in kc:
                    fk = self.cg.by_canon.get(kc.get('fn_canon')) or self.cg._resolve_local(cur_b.unit, kc['fn'])
                    if fk:
                        out.add(fk)
            if cur_b.kind == 'closure':
                for idx, name in sl.upvars:
                    pb, o = upvar_operand(cur_b.unit, cur_b, idx)
                    if o is not None and (pb.path, idx, cur_b.path) not in seen:
                        seen.add((pb.path, idx, cur_b.path))
                        work.append((pb, [o]))
            for p in sl.params:
                if cur_b.kind == 'closure' and p == 1:
                    continue
                me = self.cg._key(cur_b.unit, cur_b.path)
                for caller_k, callees in self.cg.edges.items():
                    if me in callees:
                        cb = self.cg.bodies[caller_k]
                        for cc in cb.calls():
                            if self.cg.target_of(cc) == me and p - 1 < len(cc.args) and (caller_k, cc.bb, p) not in seen:
                                seen.add((caller_k, cc.bb, p))
                                work.append((cb, [cc.args[p - 1]]))
            # fields of local ADTs holding closures / fn pointers are not followed
        self._indirect_cache[key] = sorted(out)
        return self._indirect_cache[key]

    # ---- solving
    def seed(self, label, node):
        self.seeds[label].add(node)

    def solve(self):
        self.labels = defaultdict(set)
        self.parent = {}
        for label, nodes in self.seeds.items():
            dq = deque()
            for n in nodes:
                if label not in self.labels[n]:
                    self.labels[n].add(label)
                    self.parent[(label, n)] = None
                    dq.append(n)
            while dq:
                x = dq.popleft()
                for y in self.edges.get(x, ()):
                    if label not in self.labels[y]:
                        self.labels[y].add(label)
                        self.parent[(label, y)] = x
                        dq.append(y)
        return self.labels

    def labels_of(self, nodes):
        out = set()
        for n in nodes:
            out |= self.labels.get(n, set())
        return out

    def witness(self, label, nodes, limit=14):
        """a chain of assignments that carries `label` from a seed to one of nodes"""
        for n in nodes:
            if label in self.labels.get(n, ()):
                chain = []
                cur = n
                while cur is not None and len(chain) < 60:
                    prev = self.parent.get((label, cur))
                    chain.append((cur, self.why.get((prev, cur), 'seed') if prev is not None else 'seed'))
                    cur = prev
                chain.reverse()
                txt = []
                for node, why in chain:
                    txt.append('%s @ %s' % (fmt_node(node), why))
                if len(txt) > limit:
                    txt = txt[:limit // 2] + ['... %d steps ...' % (len(txt) - limit)] + txt[-limit // 2:]
                return txt
        return []


def fmt_node(n):
    if n[0] == 'L':
        return '%s::_%d' % (n[1], n[2])
    if n[0] == 'F':
        return '%s%s.%s' % (n[1], ('::' + n[2]) if n[2] else '', n[3])
    if n[0] == 'U':
        return '%s.upvar%d' % (n[1], n[2])
    return str(n)

"""Call graph (DESIGN 3.1) and the table of file-system mutating primitives (3.4)."""
import re
from collections import defaultdict
from .facts import Call, op_const, rvalue_operands

# callee regex -> (effect kind, indices of the mutated path argument(s))
SINKS = [
    (r'^std::fs::remove_file$', 'remove_file', [0]),
    (r'^std::fs::remove_dir$', 'remove_dir', [0]),
    (r'^std::fs::remove_dir_all$', 'remove_dir_all', [0]),
    (r'^std::fs::rename$', 'rename', [0, 1]),
    (r'^std::fs::copy$', 'copy', [1]),
    (r'^std::fs::write$', 'write', [0]),
    (r'^std::fs::create_dir$', 'create_dir', [0]),
    (r'^std::fs::create_dir_all$', 'create_dir_all', [0]),
    (r'^std::fs::hard_link$', 'hard_link', [0, 1]),   # the source inode's link count changes too
    (r'^std::fs::soft_link$', 'symlink', [1]),
    (r'^std::os::unix::fs::symlink$', 'symlink', [1]),
    (r'^std::fs::set_permissions$', 'set_permissions', [0]),
    (r'^std::fs::File::create(_new)?$', 'File::create', [0]),
    (r'^std::fs::File::(set_len|set_permissions|set_times|set_modified)$', 'file-handle-mutation', [0]),
    (r'^std::fs::OpenOptions::open$', 'OpenOptions::open', [1]),
    (r'^filetime::set_file_(times|mtime|atime|handle_times)$', 'set_file_times', [0]),
    (r'^filetime::set_symlink_file_times$', 'set_file_times', [0]),
    (r'^nix::unistd::mkfifo$', 'mkfifo', [0]),
    (r'xattr::FileExt::(set_xattr|remove_xattr)$', 'xattr', [0]),
    (r'^xattr::(set|remove)$', 'xattr', [0]),
    (r'file_owner::PathExt>::(set_owner|set_group|set_owner_group)$', 'chown', [0]),
    (r'^libc::ioctl$', 'ioctl', [0]),
    (r'^libc::(unlink|rename|renameat|truncate|ftruncate|link|symlink|chmod|chown|mkdir|rmdir|fchmod|fchown|utimensat|futimens)$', 'libc', [0]),
    (r'^nix::(unistd|sys::stat|fcntl)::(unlink|unlinkat|truncate|ftruncate|linkat|symlinkat|mkdir|fchmod|fchmodat|chown|fchown|renameat|utimensat|futimens)$', 'nix', [0]),
    (r'^reflink::reflink(_or_copy)?$', 'reflink-crate', [1]),
    (r'^(typed_)?sled::open$', 'sled::open', [0]),
    (r'^sled::Config::open$', 'sled::open', [0]),
    (r'^std::process::Command::(spawn|output|status)$', 'EXEC', []),
]
SINKS = [(re.compile(r), k, a) for r, k, a in SINKS]

OPEN_WRITEISH = re.compile(r'^std::fs::OpenOptions::(write|append|create|create_new|truncate)$')
OPEN_READ = re.compile(r'^std::fs::OpenOptions::(read|new)$|OpenOptionsExt>::(custom_flags|mode)$|OpenOptions as std::clone::Clone>::clone$')


# ioctl requests that only read (the request is the second argument, a named constant of libc)
READONLY_IOCTL = re.compile(r'FS_IOC_GETFLAGS|FS_IOC_GETVERSION|FS_IOC_FIEMAP|FIGETBSZ|FIONREAD|FIBMAP|BLKGETSIZE|BLKSSZGET|TIOCGWINSZ')


def sink_kind(call):
    for r, k, a in SINKS:
        if any(r.search(n) for n in call.names()):
            if k == 'ioctl' and len(call.args) > 1:
                kk = op_const(call.args[1])
                if isinstance(kk, dict) and READONLY_IOCTL.search(str(kk.get('item') or kk.get('v') or '')):
                    return None
            return k, a
    return None


class CallGraph:
    def __init__(self, units):
        """units: list of Unit (e.g. [lib, bin]); bodies of the binary may call the library
        by crate-qualified path `fclones::x::y` -> mapped to lib path `x::y`."""
        self.units = units
        self.bodies = {}
        self.by_canon = {}
        for u in units:
            for p, b in u.bodies.items():
                self.bodies.setdefault(self._key(u, p), b)
                c = b.raw.get('canon')
                if c:
                    self.by_canon.setdefault(c, self._key(u, p))
        self.edges = defaultdict(set)         # body key -> set of body keys
        self.leaf_calls = defaultdict(list)   # body key -> list of Call to non-local callees
        self.edge_sites = defaultdict(list)   # (caller, callee) -> list of Call / ('drop', bb) / ('closure', bb)
        self.impl_methods = defaultdict(list)  # (trait path, method name) -> body keys
        self.type_impls = defaultdict(list)    # ADT path -> body keys of trait-impl methods on it
        for u in units:
            for i in u.impls:
                for m in i['methods']:
                    name = m.rsplit('::', 1)[-1]
                    k = self._key(u, m)
                    if k in self.bodies:
                        self.impl_methods[(i['trait'], name)].append(k)
                        self.impl_methods[(i['trait'].split('::')[-1], name)].append(k)
                        for a in u.adts:
                            if re.search(r'(^|[^\w:])%s($|[^\w:])' % re.escape(a), i['self_ty']) or i['self_ty'] == a or i['self_ty'].startswith(a + '<'):
                                self.type_impls[a].append(k)
        self._adt_re = None
        for u in units:
            for p, b in u.bodies.items():
                self._scan(u, b)

    @staticmethod
    def _key(unit, path):
        if unit.unit in ('bin', 'bintest'):
            return 'bin::' + path
        return path

    def _resolve_local(self, unit, path):
        """callee path as printed in `unit` -> body key, or None"""
        if unit.unit in ('bin', 'bintest'):
            k = 'bin::' + path
            if k in self.bodies:
                return k
            if path.startswith('fclones::'):
                k = path[len('fclones::'):]
                if k in self.bodies:
                    return k
            m = re.match(r'^<fclones::(.*)$', path)
            k2 = re.sub(r'\bfclones::', '', path)
            if k2 in self.bodies:
                return k2
            return None
        return path if path in self.bodies else None

    def _scan(self, unit, b):
        me = self._key(unit, b.path)
        for bi, blk in enumerate(b.blocks):
            # unwinding paths run drop glue too, so cleanup blocks are included here
            for s in blk['stmts']:
                rv = s['rv']
                if rv['k'] == 'agg' and rv.get('ak') == 'closure':
                    k = self._resolve_local(unit, rv['def'])
                    if k:
                        self._edge(me, k, ('closure', bi))
                for o in rvalue_operands(rv):
                    c = op_const(o)
                    if c and 'fn' in c:
                        k = self.by_canon.get(c.get('fn_canon')) or self._resolve_local(unit, c['fn'])
                        if k:
                            self._edge(me, k, ('fnref', bi))
            t = blk['term']
            if t['k'] == 'drop':
                for g in t['glue']:
                    k = self._resolve_local(unit, g)
                    if k:
                        self._edge(me, k, ('drop', bi))
            elif t['k'] == 'call':
                c = Call(b, bi, t)
                f = t['f']
                for a in t['args']:
                    kc = op_const(a)
                    if kc and 'fn' in kc:
                        k = self.by_canon.get(kc.get('fn_canon')) or self._resolve_local(unit, kc['fn'])
                        if k:
                            self._edge(me, k, ('fnref', bi))
                targets = []
                if f.get('res') and f.get('path'):
                    k = self.by_canon.get(f.get('canon')) or self._resolve_local(unit, f['path'])
                    if k:
                        targets.append(k)
                if f.get('self_closure'):
                    k = self.by_canon.get(f.get('self_closure_canon')) or self._resolve_local(unit, f['self_closure'])
                    if k:
                        targets.append(k)
                if f.get('self_fn'):
                    k = self._resolve_local(unit, f['self_fn'])
                    if k:
                        targets.append(k)
                if not f.get('res') and f.get('trait') and f.get('method'):
                    targets.extend(self.impl_methods.get((f['trait'], f['method']), []))
                    targets.extend(self.impl_methods.get((re.sub(r'^fclones::', '', f['trait']), f['method']), []))
                if not targets:
                    self.leaf_calls[me].append(c)
                if not targets or not f.get('local'):
                    # callbacks from external generic code into local trait impls of the
                    # local types named in the generic arguments
                    for ga in (f.get('rargs') or []) + (f.get('gargs') or []):
                        for adt in self._adts_in(ga):
                            for k in self.type_impls.get(adt, []):
                                self._edge(me, k, ('callback', bi))
                for k in targets:
                    self._edge(me, k, c)

    def _adts_in(self, s):
        if self._adt_re is None:
            names = set()
            for u in self.units:
                names.update(u.adts.keys())
            self._adt_names = names
            self._adt_re = re.compile(r'(?:fclones::)?([A-Za-z_][\w]*(?:::[A-Za-z_][\w]*)+)')
        out = []
        for m in self._adt_re.finditer(s):
            n = m.group(1)
            if n in self._adt_names:
                out.append(n)
        return out

    def target_of(self, call):
        """body key a resolved call lands in (same or other unit), or None"""
        f = call.f
        k = self.by_canon.get(f.get('canon')) if f.get('res') else None
        if k is None and f.get('self_closure_canon'):
            k = self.by_canon.get(f['self_closure_canon'])
        return k

    def _edge(self, a, b, site):
        self.edges[a].add(b)
        self.edge_sites[(a, b)].append(site)

    def reachable(self, roots, stop=None):
        """body keys reachable from roots; `stop(key)` -> do not expand"""
        seen = set()
        parent = {}
        st = [r for r in roots if r in self.bodies]
        for r in st:
            parent[r] = None
        while st:
            x = st.pop()
            if x in seen:
                continue
            seen.add(x)
            if stop and stop(x):
                continue
            for y in self.edges.get(x, ()):
                if y not in seen:
                    if y not in parent:
                        parent[y] = x
                    st.append(y)
        self._parent = parent
        return seen

    def path_to(self, key):
        """call path root -> key of the last `reachable` query"""
        out = []
        k = key
        while k is not None:
            out.append(k)
            k = self._parent.get(k)
        return list(reversed(out))

    def sinks_in(self, key):
        """mutating primitive call sites directly inside body `key`"""
        b = self.bodies[key]
        out = []
        for c in b.calls(cleanup=True):
            sk = sink_kind(c)
            if sk:
                out.append((c, sk[0], sk[1]))
        return out

    def may_mutate(self, key, _memo={}):
        """body transitively contains a mutating primitive"""
        memo = self.__dict__.setdefault('_mm', {})
        if key in memo:
            return memo[key]
        r = self.reachable([key])
        res = any(self.sinks_in(k) for k in r)
        memo[key] = res
        return res


def open_mode(body, call):
    """For an OpenOptions::open call: the set of builder methods applied to the
    builder value (typestate over the builder local, intra-procedural, including the
    creating body for closures)."""
    from .analysis import backslice
    sl = backslice(body, [call.args[0]])
    methods = set()
    for c in sl.calls:
        m = re.search(r'OpenOptions(?:Ext)?>?::(\w+)$', c.path)
        if m:
            # only builder calls with a constant `true` argument (or no bool arg) count
            from .facts import const_bool
            if len(c.args) >= 2 and const_bool(c.args[1]) is False:
                continue
            methods.add(m.group(1))
    unknown = bool(sl.params) or bool(sl.upvars)
    return methods, unknown, sl

"""fcverif - repository-specific static rules over the resolved MIR of fclones."""

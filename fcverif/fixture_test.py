"""Engine self-test on the fixture crate: the analyses must report exactly the planted instances.
Guards the machinery itself (e.g. against a toolchain whose MIR shapes differ)."""
import os, sys, subprocess, hashlib, json, time
from . import extract as X
from .facts import load_unit
from .analysis import (backslice, truth_table, table_equals, result_tests, must_pass_state, classify_result)
from .rules.common import err_handling
from .callgraph import CallGraph, sink_kind, open_mode
from .units import unit_of, str_index_sinks, chars_take_sinks
from .flow import Flow

FIX = os.path.join(X.VERIF, 'fixtures')


def extract_fixture():
    h = hashlib.sha256()
    for f in ('Cargo.toml', 'src/lib.rs'):
        h.update(open(os.path.join(FIX, f), 'rb').read())
    h.update(open(X.DRIVER, 'rb').read())
    key = h.hexdigest()[:16]
    out = os.path.join(X.WORK, 'fixture-facts', key)
    f = os.path.join(out, 'fixtures-lib.json')
    if os.path.exists(f):
        return f
    os.makedirs(out, exist_ok=True)
    env = dict(os.environ)
    env.update({'FCX_OUT': out, 'FCX_NONCE': key, 'FCX_CRATES': 'fixtures', 'LD_LIBRARY_PATH': os.path.join(X.sysroot(), 'lib'),
                'RUSTFLAGS': '-Zmir-opt-level=0 -Awarnings', 'RUSTC_WORKSPACE_WRAPPER': X.DRIVER,
                'CARGO_TARGET_DIR': os.path.join(X.WORK, 'fixture-target'), 'CARGO_NET_OFFLINE': 'true'})
    import shutil, glob
    for fp in glob.glob(os.path.join(X.WORK, 'fixture-target', 'debug', '.fingerprint', 'fixtures-*')):
        shutil.rmtree(fp, ignore_errors=True)
    r = subprocess.run(['cargo', '+nightly', 'check', '--offline', '--lib'], cwd=FIX, env=env, stdout=subprocess.PIPE, stderr=subprocess.STDOUT, text=True)
    if r.returncode != 0 or not os.path.exists(f):
        raise RuntimeError('fixture extraction failed:\n' + r.stdout[-1500:])
    return f


def run(quiet=False):
    u = load_unit(extract_fixture())
    res = []

    def expect(name, got, want):
        res.append((name, got == want, got, want))
    B = u.body
    # sinks
    for fn, kind in (('sink_remove', 'remove_file'), ('sink_hard_link', 'hard_link')):
        ks = [sink_kind(c)[0] for c in B(fn).calls() if sink_kind(c)]
        expect('sink:' + fn, ks, [kind])
    for fn, want in (('sink_open_write', True), ('open_read_only', False)):
        c = B(fn).calls(r'OpenOptions::open$')[0]
        m, _, _ = open_mode(B(fn), c)
        expect('open-mode:' + fn, bool(m & {'write', 'append', 'create', 'truncate'}), want)
    # units
    c, o = chars_take_sinks(B('bytes_into_take'))[0]
    expect('unit:bytes_into_take', unit_of(B('bytes_into_take'), o)[0], 'BYTES')
    c, o = chars_take_sinks(B('chars_into_take'))[0]
    expect('unit:chars_into_take', unit_of(B('chars_into_take'), o)[0], 'CHARS')
    for fn, want in (('chars_into_slice', 'CHARS'), ('bytes_into_slice', 'BYTES')):
        c, ops = str_index_sinks(B(fn))[0]
        expect('unit:' + fn, unit_of(B(fn), ops[-1])[0], want)
    # error discipline
    for fn, want in (('err_discarded', 'DISCARDED'), ('err_discarded_ok', 'DISCARDED'), ('err_propagated', 'PROPAGATED'), ('err_logged', 'LOGGED'),
                     ('err_partially_handled', 'HANDLED-ARM'), ('err_absent_is_an_answer', 'ERR-RETURNED'), ('err_other_kind_swallowed', 'HANDLED-ARM'), ('err_wrapped_by_helper', 'ERR-RETURNED'), ('err_refused_by_helper', 'ERR-RETURNED'), ('err_panics', 'PANICS'), ('err_inspected_then_propagated', 'RETURNED')):
        c = B(fn).calls(r'^std::fs::remove_file$')[0]
        expect('err:' + fn, err_handling(B(fn), c)[0], want)
    # truth tables
    ref = lambda a: a['a'] or not a['b']
    for fn, want in (('pred_or_not', True), ('pred_demorgan', True), ('pred_ladder', True), ('pred_and', False)):
        b = B(fn)
        atoms = {'a': b.calls(r'atom_a$')[0].bb, 'b': b.calls(r'atom_b$')[0].bb}
        expect('truth:' + fn, table_equals(truth_table(b, atoms), ref)[0], want)
    # label propagation
    fl = Flow([u], 'origin')
    fl.seed('INPUT', ('F', 'Cfg', '', 'input'))
    fl.seed('TMP', ('F', 'Cfg', '', 'tmp'))
    fl.solve()
    def sink_labels(body_path):
        b = B(body_path)
        out = set()
        for c in b.calls():
            sk = sink_kind(c)
            if sk and not c.f.get('local'):
                for i in sk[1] or [0]:
                    out |= fl.labels_of(fl.op_read(body_path, b, c.args[i]))
        return sorted(out)
    expect('flow:input_to_sink', sink_labels('flow_input_to_sink'), ['INPUT'])
    expect('flow:tmp_to_sink', sink_labels('flow_tmp_to_sink'), ['TMP'])
    expect('flow:through_closure', sink_labels('flow_through_closure::{closure#0}'), ['INPUT'])
    expect('flow:through_call', sink_labels('helper'), ['INPUT'])
    expect('flow:through_enum_drop', sink_labels('<Holder as std::ops::Drop>::drop'), ['INPUT'])
    expect('flow:scalar_drops_label', sink_labels('flow_hash_does_not_carry'), ['TMP'])
    cg = CallGraph([u])
    expect('callgraph:closure-edge', 'flow_through_closure::{closure#0}' in cg.reachable(['flow_through_closure']), True)
    expect('callgraph:call-edge', 'helper' in cg.reachable(['flow_through_call']), True)
    # correlated result tests
    for fn, want in (('rollback_correlated', True), ('rollback_missing_on_one_path', False)):
        b = B(fn)
        st = b.calls(r'^step$')[0]
        rb = {c.bb for c in b.calls(r'^rollback$')}
        tests = result_tests(b, st)
        expect('state-paths:' + fn, must_pass_state(b, st.ret, tests, 'err', rb)[0], want)
    # error of a fallback call: the path `Err arm -> first? -> Ok` is infeasible (first is known to be Err there)
    for fn, want in (('open_with_fallback', 'ERR-RETURNED'), ('open_with_fallback_swallowing', 'HANDLED-ARM')):
        c = B(fn).calls(r'^std::fs::File::open$')[0]
        expect('err-correlated:' + fn, err_handling(B(fn), c)[0], want)
    # buffered writers
    from .rules.common import buffered_drops
    for fn, want in (('buffered_dropped_unflushed', [False]), ('buffered_flushed', [True]), ('buffered_flush_ignored', [False]), ('buffered_flushed_by_callee', [True])):
        expect('buffered-drop:' + fn, [x[3] for x in buffered_drops(B(fn))], want)
    # identity hashes

    class _Ctx:
        def __init__(self):
            self.lib = u
            self.out = []

        def need_body(self, rule, fn):
            return u.body(fn)

        def check(self, ok, *a):
            self.out.append(bool(ok))
    from .rules.common import delimited_identity_hash
    for fn, want in (('hash_undelimited', [False]), ('hash_delimited', [True]), ('hash_by_impl', [True])):
        c = _Ctx()
        delimited_identity_hash(c, 'X', fn)
        expect('identity-hash:' + fn, c.out, want)
    bad = [r for r in res if not r[1]]
    if not quiet:
        for name, ok, got, want in res:
            print('%s ENGINE-CONTROL %s got=%s want=%s' % ('OK  ' if ok else 'BAD ', name, got, want))
        print('ENGINE-SELFTEST: %d/%d controls as planted' % (len(res) - len(bad), len(res)))
    return len(res), len(bad), [(n, str(g), str(w)) for n, ok, g, w in res if not ok]


if __name__ == '__main__':
    n, bad, _ = run()
    sys.exit(1 if bad else 0)

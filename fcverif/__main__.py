import sys, os, argparse, json
from . import engine, extract
from .rules import REGISTRY, load_all


def main():
    ap = argparse.ArgumentParser(prog='check')
    ap.add_argument('prop', nargs='?')
    ap.add_argument('--tier', default=os.environ.get('VERIF_TIER', 'quick'), choices=['quick', 'thorough'])
    ap.add_argument('--replay')
    ap.add_argument('--warm', action='store_true', help='build the driver and pre-compile dependencies')
    ap.add_argument('--list', action='store_true')
    a = ap.parse_args()
    load_all()
    if a.warm:
        extract.build_driver()
        for cfg in ('default', 'alltargets', 'nodefault'):
            d, key, cached = extract.extract(cfg)
            print('facts %s %s %s' % (cfg, key, 'cached' if cached else 'extracted'))
        return 0
    if a.list:
        print(' '.join(sorted(REGISTRY)))
        return 0
    if a.prop not in REGISTRY:
        print('no check for %s' % a.prop)
        return 3
    seed = int(os.environ.get('VERIF_SEED', '0') or 0)
    if a.replay:
        with open(a.replay) as f:
            r = json.load(f)
        print('replaying %s (%s) on the current tree' % (r['key'], r['where']))
    rc = engine.run_property(a.prop, a.tier, REGISTRY[a.prop], seed=seed)
    if a.tier == 'thorough' and rc in (0, 1) and not os.environ.get('FCVERIF_NO_SELFTEST'):
        from . import selftest, fixture_test
        n, bad, details = fixture_test.run(quiet=True)
        print('ENGINE-SELFTEST: %d/%d planted controls of the fixture crate recognised' % (n - bad, n))
        for d in details:
            print('ENGINE-CONTROL-FAILED %s got=%s want=%s' % d)
        rc2 = selftest.run(a.prop)
        try:
            evp = os.path.join(engine.VERIF, 'evidence', '%s.json' % a.prop)
            ev = json.load(open(evp))
            ev['coverage']['engine_controls'] = n
            ev['coverage']['engine_controls_ok'] = n - bad
            json.dump(ev, open(evp, 'w'), indent=1)
        except Exception:
            pass
        if bad:
            print('NO-VERDICT: the analysis engine failed its own planted controls; results above are not trustworthy')
            return 2
        rc = max(rc, rc2)
    return rc


sys.exit(main())

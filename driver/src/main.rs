// fcx — fact extractor for the fclones static checks.
//
// A rustc driver (used as RUSTC_WORKSPACE_WRAPPER).  It runs the normal
// compilation and, after analysis, dumps the resolved MIR of every body of the
// local crate plus a few tables as one JSON file.  It contains no property
// logic: every rule lives in /verif/fcverif (Python).
#![feature(rustc_private)]
#![allow(clippy::all)]

extern crate rustc_abi;
extern crate rustc_driver;
extern crate rustc_hir;
extern crate rustc_interface;
extern crate rustc_middle;
extern crate rustc_span;

use rustc_driver::{Callbacks, Compilation};
use rustc_hir::def::DefKind;
use rustc_hir::def_id::{DefId, LocalDefId};
use rustc_interface::interface::Compiler;
use rustc_middle::mir::{
    self, AggregateKind, BasicBlock, BorrowKind, Body, Const, ConstValue, Operand, Place,
    ProjectionElem, Rvalue, StatementKind, TerminatorKind, UnwindAction,
};
use rustc_middle::ty::{self, Instance, Ty, TyCtxt, TypingEnv};
use rustc_span::Span;
use std::fmt::Write as _;

fn esc(s: &str) -> String {
    let mut o = String::with_capacity(s.len() + 2);
    o.push('"');
    for c in s.chars() {
        match c {
            '"' => o.push_str("\\\""),
            '\\' => o.push_str("\\\\"),
            '\n' => o.push_str("\\n"),
            '\r' => o.push_str("\\r"),
            '\t' => o.push_str("\\t"),
            c if (c as u32) < 0x20 => {
                let _ = write!(o, "\\u{:04x}", c as u32);
            }
            c => o.push(c),
        }
    }
    o.push('"');
    o
}

fn opt_str(s: Option<String>) -> String {
    match s {
        Some(s) => esc(&s),
        None => "null".into(),
    }
}

struct Cx<'tcx> {
    tcx: TyCtxt<'tcx>,
}

impl<'tcx> Cx<'tcx> {
    fn path(&self, did: DefId) -> String {
        self.tcx.def_path_str(did)
    }

    fn canon(&self, did: DefId) -> String {
        format!("{}{}", self.tcx.crate_name(did.krate), self.tcx.def_path(did).to_string_no_crate_verbose())
    }

    /// ADT name: for the fclones crates the crate-relative definition path (identical in
    /// every compilation unit, unlike the visible re-export path), else the printed path
    fn adt_name(&self, did: DefId) -> String {
        if self.tcx.crate_name(did.krate).as_str() == "fclones" {
            let p = self.tcx.def_path(did).to_string_no_crate_verbose();
            p.trim_start_matches("::").to_string()
        } else {
            self.path(did)
        }
    }

    fn ty_str(&self, t: Ty<'tcx>) -> String {
        format!("{}", t)
    }

    fn line_of(&self, sp: Span) -> (String, usize, usize) {
        let sm = self.tcx.sess.source_map();
        let lo = sm.lookup_char_pos(sp.lo());
        let hi = sm.lookup_char_pos(sp.hi());
        let f = match &lo.file.name {
            rustc_span::FileName::Real(r) => match r.local_path() {
                Some(p) => p.to_string_lossy().to_string(),
                None => format!("{:?}", r),
            },
            o => format!("{:?}", o),
        };
        (f, lo.line, hi.line)
    }

    /// Source location of a span, walking out of macro expansions to the
    /// outermost call site; second component = came from an expansion.
    fn loc(&self, sp: Span) -> (usize, bool) {
        let exp = sp.from_expansion();
        let root = sp.source_callsite();
        let sm = self.tcx.sess.source_map();
        let lo = sm.lookup_char_pos(root.lo());
        (lo.line, exp)
    }

    fn snippet(&self, sp: Span) -> Option<String> {
        if !sp.from_expansion() {
            return None;
        }
        let root = sp.source_callsite();
        let sm = self.tcx.sess.source_map();
        match sm.span_to_snippet(root) {
            Ok(s) if s.len() < 400 => Some(s),
            _ => None,
        }
    }

    fn place(&self, body: &Body<'tcx>, p: &Place<'tcx>) -> String {
        let mut s = String::new();
        let _ = write!(s, "[{},[", p.local.as_usize());
        let mut pty = mir::PlaceTy::from_ty(body.local_decls[p.local].ty);
        let mut first = true;
        for elem in p.projection.iter() {
            if !first {
                s.push(',');
            }
            first = false;
            match elem {
                ProjectionElem::Deref => s.push_str("\"*\""),
                ProjectionElem::Field(f, _) => {
                    let name = self.field_name(pty, f.as_usize());
                    let owner = match pty.ty.kind() {
                        ty::Adt(adt, _) => self.adt_name(adt.did()),
                        ty::Closure(..) => "{closure}".to_string(),
                        ty::Tuple(..) => "()".to_string(),
                        _ => String::new(),
                    };
                    let _ = write!(s, "[\"F\",{},{},{}]", f.as_usize(), esc(&name), esc(&owner));
                }
                ProjectionElem::Downcast(sym, vidx) => {
                    let name = match sym {
                        Some(s) => s.to_string(),
                        None => match pty.ty.kind() {
                            ty::Adt(adt, _) => adt.variant(vidx).name.to_string(),
                            _ => format!("{}", vidx.as_usize()),
                        },
                    };
                    let _ = write!(s, "[\"D\",{},{}]", vidx.as_usize(), esc(&name));
                }
                ProjectionElem::Index(l) => {
                    let _ = write!(s, "[\"I\",{}]", l.as_usize());
                }
                ProjectionElem::ConstantIndex { offset, .. } => {
                    let _ = write!(s, "[\"CI\",{}]", offset);
                }
                ProjectionElem::Subslice { .. } => s.push_str("\"S\""),
                _ => s.push_str("\"O\""),
            }
            pty = pty.projection_ty(self.tcx, elem);
        }
        s.push_str("]]");
        s
    }

    fn field_name(&self, pty: mir::PlaceTy<'tcx>, idx: usize) -> String {
        match pty.ty.kind() {
            ty::Adt(adt, _) => {
                let v = match pty.variant_index {
                    Some(v) => v,
                    None => {
                        if adt.is_enum() {
                            return format!("{}", idx);
                        }
                        rustc_abi::FIRST_VARIANT
                    }
                };
                let var = adt.variant(v);
                match var.fields.iter().nth(idx) {
                    Some(f) => f.name.to_string(),
                    None => format!("{}", idx),
                }
            }
            _ => format!("{}", idx),
        }
    }

    fn konst(&self, c: &mir::ConstOperand<'tcx>) -> String {
        let ty = c.const_.ty();
        let mut s = String::from("{\"k\":{");
        let _ = write!(s, "\"ty\":{}", esc(&self.ty_str(ty)));
        match ty.kind() {
            ty::FnDef(did, args) => {
                let _ = write!(s, ",\"fn\":{}", esc(&self.path(*did)));
                let _ = write!(s, ",\"fn_canon\":{}", esc(&self.canon(*did)));
                let _ = write!(s, ",\"local\":{}", did.is_local());
                let ga: Vec<String> = args.iter().map(|a| esc(&format!("{}", a))).collect();
                let _ = write!(s, ",\"gargs\":[{}]", ga.join(","));
            }
            _ => {
                // which const/static item (if any) the constant names
                match c.const_ {
                    Const::Unevaluated(uv, _) => {
                        let _ = write!(s, ",\"item\":{}", esc(&self.path(uv.def)));
                        if let Some(pi) = uv.promoted {
                            let _ = write!(s, ",\"promoted\":{}", pi.as_usize());
                        }
                    }
                    Const::Val(ConstValue::Scalar(sc), _) => {
                        if let rustc_middle::mir::interpret::Scalar::Ptr(p, _) = sc {
                            let aid = p.provenance.alloc_id();
                            if let Some(ga) = self.tcx.try_get_global_alloc(aid) {
                                if let rustc_middle::mir::interpret::GlobalAlloc::Static(did) = ga {
                                    let _ = write!(s, ",\"static\":{}", esc(&self.path(did)));
                                }
                            }
                        }
                    }
                    _ => {}
                }
                let v = format!("{}", c.const_);
                let v = if v.len() > 300 { v[..v.char_indices().nth(200).map(|x| x.0).unwrap_or(v.len())].to_string() } else { v };
                let _ = write!(s, ",\"v\":{}", esc(&v));
            }
        }
        s.push_str("}}");
        s
    }

    fn operand(&self, body: &Body<'tcx>, o: &Operand<'tcx>) -> String {
        match o {
            Operand::Copy(p) => format!("{{\"c\":{}}}", self.place(body, p)),
            Operand::Move(p) => format!("{{\"m\":{}}}", self.place(body, p)),
            Operand::Constant(c) => self.konst(c),
            #[allow(unreachable_patterns)]
            _ => "{\"k\":{\"ty\":\"?\",\"v\":\"?\"}}".to_string(),
        }
    }

    fn rvalue(&self, body: &Body<'tcx>, rv: &Rvalue<'tcx>) -> String {
        match rv {
            Rvalue::Use(op, _) => format!("{{\"k\":\"use\",\"op\":{}}}", self.operand(body, op)),
            Rvalue::Repeat(op, _) => {
                format!("{{\"k\":\"repeat\",\"op\":{}}}", self.operand(body, op))
            }
            Rvalue::Ref(_, bk, p) => {
                let m = matches!(bk, BorrowKind::Mut { .. });
                format!("{{\"k\":\"ref\",\"mut\":{},\"p\":{}}}", m, self.place(body, p))
            }
            Rvalue::RawPtr(k, p) => {
                let m = format!("{:?}", k).contains("Mut");
                format!("{{\"k\":\"rawptr\",\"mut\":{},\"p\":{}}}", m, self.place(body, p))
            }
            Rvalue::Cast(ck, op, ty) => format!(
                "{{\"k\":\"cast\",\"ck\":{},\"op\":{},\"ty\":{}}}",
                esc(&format!("{:?}", ck)),
                self.operand(body, op),
                esc(&self.ty_str(*ty))
            ),
            Rvalue::BinaryOp(op, ab) => format!(
                "{{\"k\":\"bin\",\"op\":{},\"a\":{},\"b\":{}}}",
                esc(&format!("{:?}", op)),
                self.operand(body, &ab.0),
                self.operand(body, &ab.1)
            ),
            Rvalue::UnaryOp(op, a) => format!(
                "{{\"k\":\"un\",\"op\":{},\"a\":{}}}",
                esc(&format!("{:?}", op)),
                self.operand(body, a)
            ),
            Rvalue::Discriminant(p) => {
                format!("{{\"k\":\"disc\",\"p\":{}}}", self.place(body, p))
            }
            Rvalue::CopyForDeref(p) => {
                format!("{{\"k\":\"use\",\"op\":{{\"c\":{}}}}}", self.place(body, p))
            }
            Rvalue::Aggregate(kind, ops) => {
                let opss: Vec<String> = ops.iter().map(|o| self.operand(body, o)).collect();
                let opss = opss.join(",");
                match &**kind {
                    AggregateKind::Adt(did, vidx, _, _, active) => {
                        let adt = self.tcx.adt_def(*did);
                        let var = adt.variant(*vidx);
                        let names: Vec<String> = match active {
                            Some(f) => vec![esc(&var.fields[*f].name.to_string())],
                            None => var.fields.iter().map(|f| esc(&f.name.to_string())).collect(),
                        };
                        format!(
                            "{{\"k\":\"agg\",\"ak\":\"adt\",\"adt\":{},\"variant\":{},\"fields\":[{}],\"ops\":[{}]}}",
                            esc(&self.adt_name(*did)),
                            esc(&var.name.to_string()),
                            names.join(","),
                            opss
                        )
                    }
                    AggregateKind::Closure(did, _) => format!(
                        "{{\"k\":\"agg\",\"ak\":\"closure\",\"def\":{},\"ops\":[{}]}}",
                        esc(&self.path(*did)),
                        opss
                    ),
                    AggregateKind::Tuple => {
                        format!("{{\"k\":\"agg\",\"ak\":\"tuple\",\"ops\":[{}]}}", opss)
                    }
                    AggregateKind::Array(_) => {
                        format!("{{\"k\":\"agg\",\"ak\":\"array\",\"ops\":[{}]}}", opss)
                    }
                    _ => format!("{{\"k\":\"agg\",\"ak\":\"other\",\"ops\":[{}]}}", opss),
                }
            }
            Rvalue::ThreadLocalRef(did) => {
                format!("{{\"k\":\"tls\",\"item\":{}}}", esc(&self.path(*did)))
            }
            Rvalue::WrapUnsafeBinder(op, _) => {
                format!("{{\"k\":\"use\",\"op\":{}}}", self.operand(body, op))
            }
            #[allow(unreachable_patterns)]
            _ => "{\"k\":\"other\"}".to_string(),
        }
    }

    fn unwind_bb(&self, u: &UnwindAction) -> String {
        match u {
            UnwindAction::Cleanup(bb) => format!("{}", bb.as_usize()),
            _ => "null".into(),
        }
    }

    fn opt_bb(&self, b: &Option<BasicBlock>) -> String {
        match b {
            Some(b) => format!("{}", b.as_usize()),
            None => "null".into(),
        }
    }

    /// The `Drop::drop` impls that run when a value of type `t` is dropped.
    fn drop_glue(&self, t: Ty<'tcx>, out: &mut Vec<String>, seen: &mut Vec<Ty<'tcx>>, depth: usize) {
        if depth > 12 || seen.contains(&t) {
            return;
        }
        seen.push(t);
        match t.kind() {
            ty::Adt(adt, args) => {
                if let Some(d) = self.tcx.adt_destructor(adt.did()) {
                    let p = self.path(d.did);
                    if !out.contains(&p) {
                        out.push(p);
                    }
                }
                if adt.is_manually_drop() {
                    return;
                }
                // only descend into fields of local ADTs and generic args of foreign ones
                if adt.did().is_local() {
                    for v in adt.variants() {
                        for f in v.fields.iter() {
                            let fty = f.ty(self.tcx, args);
                            self.drop_glue(fty, out, seen, depth + 1);
                        }
                    }
                } else {
                    for a in args.iter() {
                        if let Some(t) = a.as_type() {
                            self.drop_glue(t, out, seen, depth + 1);
                        }
                    }
                }
            }
            ty::Tuple(ts) => {
                for t in ts.iter() {
                    self.drop_glue(t, out, seen, depth + 1);
                }
            }
            ty::Array(t, _) | ty::Slice(t) => self.drop_glue(*t, out, seen, depth + 1),
            ty::Closure(_, args) => {
                for t in args.as_closure().upvar_tys().iter() {
                    self.drop_glue(t, out, seen, depth + 1);
                }
            }
            _ => {}
        }
    }

    fn callee(&self, owner: DefId, body: &Body<'tcx>, func: &Operand<'tcx>) -> String {
        let fty = func.ty(&body.local_decls, self.tcx);
        match fty.kind() {
            ty::FnDef(did, args) => {
                let mut s = String::from("{");
                let _ = write!(s, "\"decl\":{}", esc(&self.path(*did)));
                let ga: Vec<String> = args.iter().map(|a| esc(&format!("{}", a))).collect();
                let _ = write!(s, ",\"gargs\":[{}]", ga.join(","));
                if self.path(*did).ends_with("Arg::value_parser") {
                    if let Some(pt) = args.iter().filter_map(|a| a.as_type()).next() {
                        let v = self.clap_value_ty(owner, pt);
                        let _ = write!(s, ",\"clap_parser\":{},\"clap_value\":{}", esc(&self.ty_str(pt)), opt_str(v));
                    }
                }
                // trait method?
                if let Some(tr) = self.tcx.trait_of_assoc(*did) {
                    let _ = write!(s, ",\"trait\":{}", esc(&self.path(tr)));
                    let _ = write!(s, ",\"method\":{}", esc(&self.tcx.item_name(*did).to_string()));
                }
                let env = TypingEnv::post_analysis(self.tcx, owner);
                let resolved = match self.tcx.try_normalize_erasing_regions(env, ty::Unnormalized::new_wip(*args)) {
                    Ok(nargs) => Instance::try_resolve(self.tcx, env, *did, nargs).ok().flatten(),
                    Err(_) => None,
                };
                match resolved {
                    Some(inst) => {
                        let rdid = inst.def_id();
                        let kind = match inst.def {
                            ty::InstanceKind::Item(_) => "item",
                            ty::InstanceKind::Virtual(..) => "virtual",
                            ty::InstanceKind::ClosureOnceShim { .. } => "closure_once",
                            ty::InstanceKind::FnPtrShim(..) => "fnptr",
                            ty::InstanceKind::DropGlue(..) => "dropglue",
                            ty::InstanceKind::CloneShim(..) => "clone_shim",
                            ty::InstanceKind::Intrinsic(_) => "intrinsic",
                            ty::InstanceKind::ReifyShim(..) => "reify",
                            _ => "shim",
                        };
                        let _ = write!(s, ",\"path\":{}", esc(&self.path(rdid)));
                        let _ = write!(s, ",\"canon\":{}", esc(&self.canon(rdid)));
                        let _ = write!(s, ",\"ik\":\"{}\"", kind);
                        let _ = write!(s, ",\"local\":{}", rdid.is_local());
                        let is_virtual = matches!(inst.def, ty::InstanceKind::Virtual(..));
                        let unresolved_trait = self.tcx.trait_of_assoc(rdid).is_some()
                            && !matches!(inst.def, ty::InstanceKind::ClosureOnceShim { .. } | ty::InstanceKind::FnPtrShim(..));
                        let _ = write!(s, ",\"res\":{}", !is_virtual && !(unresolved_trait && rdid == *did && !self.tcx.defaultness(rdid).has_value()));
                        let rga: Vec<String> = inst.args.iter().map(|a| esc(&format!("{}", a))).collect();
                        let _ = write!(s, ",\"rargs\":[{}]", rga.join(","));
                        if let Some(imp) = self.tcx.impl_of_assoc(rdid) {
                            let sty = self.tcx.type_of(imp).instantiate_identity().skip_norm_wip();
                            let _ = write!(s, ",\"impl_self\":{}", esc(&self.ty_str(sty)));
                        }
                    }
                    None => {
                        let _ = write!(s, ",\"path\":{}", esc(&self.path(*did)));
                        let _ = write!(s, ",\"ik\":\"unresolved\",\"local\":{},\"res\":false", did.is_local());
                    }
                }
                // self type for trait calls: first generic arg
                if let Some(a0) = args.iter().next().and_then(|a| a.as_type()) {
                    let _ = write!(s, ",\"self_ty\":{}", esc(&self.ty_str(a0)));
                    // closure identity when calling Fn*/call* on a closure type
                    let mut t = a0;
                    while let ty::Ref(_, inner, _) = t.kind() {
                        t = *inner;
                    }
                    if let ty::Closure(cdid, _) = t.kind() {
                        let _ = write!(s, ",\"self_closure\":{}", esc(&self.path(*cdid)));
                        let _ = write!(s, ",\"self_closure_canon\":{}", esc(&self.canon(*cdid)));
                    }
                    if let ty::FnDef(fdid, _) = t.kind() {
                        let _ = write!(s, ",\"self_fn\":{}", esc(&self.path(*fdid)));
                    }
                }
                s.push('}');
                s
            }
            _ => format!(
                "{{\"decl\":null,\"path\":null,\"ik\":\"indirect\",\"local\":false,\"res\":false,\"fty\":{},\"fop\":{}}}",
                esc(&self.ty_str(fty)),
                self.operand(body, func)
            ),
        }
    }

    fn body_json(&self, ldid: LocalDefId, kind: DefKind, unit: &str, out: &mut Vec<String>) {
        let tcx = self.tcx;
        let did = ldid.to_def_id();
        let body: &Body<'tcx> = match kind {
            DefKind::Fn | DefKind::AssocFn | DefKind::Closure => {
                if tcx.is_coroutine(did) {
                    return;
                }
                tcx.optimized_mir(did)
            }
            DefKind::Const { .. } | DefKind::AssocConst { .. } | DefKind::Static { .. } => {
                tcx.mir_for_ctfe(did)
            }
            _ => return,
        };
        let kstr = match kind {
            DefKind::Fn => "fn",
            DefKind::AssocFn => "method",
            DefKind::Closure => "closure",
            DefKind::Static { .. } => "static",
            _ => "const",
        };
        let path = self.path(did);
        out.push(self.body_json_inner(did, kind, body, &path, kstr, unit));
        if matches!(kind, DefKind::Fn | DefKind::AssocFn | DefKind::Closure) {
            for (i, pb) in tcx.promoted_mir(did).iter_enumerated() {
                let pp = format!("{}::promoted[{}]", path, i.as_usize());
                out.push(self.body_json_inner(did, DefKind::AnonConst, pb, &pp, "promoted", unit));
            }
        }
    }

    fn body_json_inner(&self, did: DefId, kind: DefKind, body: &Body<'tcx>, path: &str, kstr: &str, unit: &str) -> String {
        let tcx = self.tcx;
        let mut s = String::with_capacity(8192);
        s.push('{');
        let _ = write!(s, "\"path\":{}", esc(path));
        let _ = write!(s, ",\"canon\":{}", esc(&format!("{}{}", self.canon(did), if kstr == "promoted" { path.rsplit("::").next().unwrap_or("").to_string() } else { String::new() })));
        let _ = write!(s, ",\"kind\":\"{}\",\"unit\":{}", kstr, esc(unit));
        let (file, lo, hi) = self.line_of(body.span);
        let _ = write!(s, ",\"file\":{},\"lo\":{},\"hi\":{}", esc(&file), lo, hi);
        let _ = write!(s, ",\"exp\":{}", body.span.from_expansion());
        // parent (for closures: the enclosing body; for methods: the impl)
        let parent = if kind == DefKind::Closure {
            Some(self.path(tcx.typeck_root_def_id(did)))
        } else {
            None
        };
        let _ = write!(s, ",\"root\":{}", opt_str(parent));
        if kind == DefKind::Closure {
            let p = tcx.parent(did);
            let _ = write!(s, ",\"parent\":{}", esc(&self.path(p)));
        }
        if kind == DefKind::AssocFn {
            if let Some(imp) = tcx.impl_of_assoc(did) {
                let sty = tcx.type_of(imp).instantiate_identity().skip_norm_wip();
                let _ = write!(s, ",\"self_ty\":{}", esc(&self.ty_str(sty)));
                if let Some(tr) = tcx.impl_opt_trait_ref(imp) {
                    let tr = tr.instantiate_identity().skip_norm_wip();
                    let _ = write!(s, ",\"impl_trait\":{}", esc(&self.path(tr.def_id)));
                }
                let derived = tcx.is_automatically_derived(imp);
                let _ = write!(s, ",\"derived\":{}", derived);
            }
        }
        let _ = write!(s, ",\"argc\":{}", body.arg_count);
        // locals
        let mut names: Vec<Option<String>> = vec![None; body.local_decls.len()];
        let mut upvar_names: Vec<(usize, String)> = vec![];
        for vdi in &body.var_debug_info {
            if let mir::VarDebugInfoContents::Place(p) = &vdi.value {
                if p.projection.is_empty() {
                    names[p.local.as_usize()] = Some(vdi.name.to_string());
                } else if p.local.as_usize() == 1 {
                    // closure up-var: _1.N or (*_1).N [deref]
                    for e in p.projection.iter() {
                        if let ProjectionElem::Field(f, _) = e {
                            upvar_names.push((f.as_usize(), vdi.name.to_string()));
                            break;
                        }
                    }
                }
            }
        }
        s.push_str(",\"locals\":[");
        for (i, (l, d)) in body.local_decls.iter_enumerated().enumerate() {
            if i > 0 {
                s.push(',');
            }
            let _ = write!(
                s,
                "{{\"ty\":{},\"name\":{}}}",
                esc(&self.ty_str(d.ty)),
                opt_str(names[l.as_usize()].clone())
            );
        }
        s.push(']');
        s.push_str(",\"upvars\":[");
        upvar_names.sort();
        upvar_names.dedup();
        for (i, (idx, n)) in upvar_names.iter().enumerate() {
            if i > 0 {
                s.push(',');
            }
            let _ = write!(s, "[{},{}]", idx, esc(n));
        }
        s.push(']');
        // blocks
        s.push_str(",\"blocks\":[");
        for (bi, (_bb, data)) in body.basic_blocks.iter_enumerated().enumerate() {
            if bi > 0 {
                s.push(',');
            }
            let _ = write!(s, "{{\"cleanup\":{},\"stmts\":[", data.is_cleanup);
            let mut first = true;
            for st in &data.statements {
                if let StatementKind::Assign(b) = &st.kind {
                    let (p, rv) = &**b;
                    if !first {
                        s.push(',');
                    }
                    first = false;
                    let (line, exp) = self.loc(st.source_info.span);
                    let _ = write!(
                        s,
                        "{{\"p\":{},\"rv\":{},\"line\":{},\"exp\":{}}}",
                        self.place(body, p),
                        self.rvalue(body, rv),
                        line,
                        exp
                    );
                } else if let StatementKind::SetDiscriminant { place, variant_index } = &st.kind {
                    if !first {
                        s.push(',');
                    }
                    first = false;
                    let (line, exp) = self.loc(st.source_info.span);
                    let _ = write!(
                        s,
                        "{{\"p\":{},\"rv\":{{\"k\":\"setdisc\",\"v\":{}}},\"line\":{},\"exp\":{}}}",
                        self.place(body, place),
                        variant_index.as_usize(),
                        line,
                        exp
                    );
                }
            }
            s.push_str("],\"term\":");
            let term = data.terminator();
            let (line, exp) = self.loc(term.source_info.span);
            match &term.kind {
                TerminatorKind::Goto { target } => {
                    let _ = write!(s, "{{\"k\":\"goto\",\"t\":{}", target.as_usize());
                }
                TerminatorKind::SwitchInt { discr, targets } => {
                    let vals: Vec<String> = targets.iter().map(|(v, _)| format!("{}", v)).collect();
                    let tg: Vec<String> = targets.all_targets().iter().map(|t| format!("{}", t.as_usize())).collect();
                    let _ = write!(
                        s,
                        "{{\"k\":\"switch\",\"op\":{},\"vals\":[{}],\"tgts\":[{}]",
                        self.operand(body, discr),
                        vals.join(","),
                        tg.join(",")
                    );
                }
                TerminatorKind::Return => s.push_str("{\"k\":\"ret\""),
                TerminatorKind::Unreachable => s.push_str("{\"k\":\"unreach\""),
                TerminatorKind::UnwindResume => s.push_str("{\"k\":\"resume\""),
                TerminatorKind::UnwindTerminate(_) => s.push_str("{\"k\":\"abort\""),
                TerminatorKind::Drop { place, target, unwind, .. } => {
                    let pty = place.ty(&body.local_decls, tcx).ty;
                    let mut glue = vec![];
                    let mut seen = vec![];
                    self.drop_glue(pty, &mut glue, &mut seen, 0);
                    let g: Vec<String> = glue.iter().map(|p| esc(p)).collect();
                    let _ = write!(
                        s,
                        "{{\"k\":\"drop\",\"p\":{},\"ty\":{},\"glue\":[{}],\"ret\":{},\"unw\":{}",
                        self.place(body, place),
                        esc(&self.ty_str(pty)),
                        g.join(","),
                        target.as_usize(),
                        self.unwind_bb(unwind)
                    );
                }
                TerminatorKind::Call { func, args, destination, target, unwind, fn_span, .. } => {
                    let a: Vec<String> = args.iter().map(|a| self.operand(body, &a.node)).collect();
                    let at: Vec<String> = args
                        .iter()
                        .map(|a| esc(&self.ty_str(a.node.ty(&body.local_decls, tcx))))
                        .collect();
                    let dty = destination.ty(&body.local_decls, tcx).ty;
                    let _ = write!(
                        s,
                        "{{\"k\":\"call\",\"f\":{},\"args\":[{}],\"argtys\":[{}],\"dest\":{},\"dty\":{},\"ret\":{},\"unw\":{}",
                        self.callee(did, body, func),
                        a.join(","),
                        at.join(","),
                        self.place(body, destination),
                        esc(&self.ty_str(dty)),
                        self.opt_bb(target),
                        self.unwind_bb(unwind)
                    );
                    let _ = write!(s, ",\"fexp\":{}", fn_span.from_expansion());
                    if let Some(sn) = self.snippet(term.source_info.span) {
                        let _ = write!(s, ",\"snip\":{}", esc(&sn));
                    }
                }
                TerminatorKind::Assert { cond, expected, target, unwind, msg } => {
                    let m = format!("{:?}", msg);
                    let m: String = m.chars().take(60).collect();
                    let _ = write!(
                        s,
                        "{{\"k\":\"assert\",\"cond\":{},\"expected\":{},\"ret\":{},\"unw\":{},\"msg\":{}",
                        self.operand(body, cond),
                        expected,
                        target.as_usize(),
                        self.unwind_bb(unwind),
                        esc(&m)
                    );
                }
                TerminatorKind::FalseEdge { real_target, .. } => {
                    let _ = write!(s, "{{\"k\":\"goto\",\"t\":{}", real_target.as_usize());
                }
                TerminatorKind::FalseUnwind { real_target, .. } => {
                    let _ = write!(s, "{{\"k\":\"goto\",\"t\":{}", real_target.as_usize());
                }
                _ => s.push_str("{\"k\":\"other\""),
            }
            let _ = write!(s, ",\"line\":{},\"exp\":{}}}}}", line, exp);
        }
        s.push_str("]}");
        s
    }

    fn adts_json(&self) -> String {
        let tcx = self.tcx;
        let mut out: Vec<String> = vec![];
        for id in tcx.hir_free_items() {
            let ldid = id.owner_id.def_id;
            let kind = tcx.def_kind(ldid);
            if !matches!(kind, DefKind::Struct | DefKind::Enum | DefKind::Union) {
                continue;
            }
            let adt = tcx.adt_def(ldid.to_def_id());
            let mut s = String::new();
            let _ = write!(s, "{{\"path\":{},\"enum\":{}", esc(&self.adt_name(ldid.to_def_id())), adt.is_enum());
            let d = tcx.adt_destructor(adt.did()).map(|d| self.path(d.did));
            let _ = write!(s, ",\"drop\":{}", opt_str(d));
            s.push_str(",\"variants\":[");
            for (i, v) in adt.variants().iter().enumerate() {
                if i > 0 {
                    s.push(',');
                }
                let _ = write!(s, "{{\"name\":{},\"fields\":[", esc(&v.name.to_string()));
                for (j, f) in v.fields.iter().enumerate() {
                    if j > 0 {
                        s.push(',');
                    }
                    let fty = tcx.type_of(f.did).instantiate_identity().skip_norm_wip();
                    let _ = write!(s, "[{},{}]", esc(&f.name.to_string()), esc(&self.ty_str(fty)));
                }
                s.push_str("]}");
            }
            s.push_str("]}");
            out.push(s);
        }
        format!("[{}]", out.join(","))
    }

    fn impls_json(&self) -> String {
        let tcx = self.tcx;
        let mut out: Vec<String> = vec![];
        for (tr, impls) in tcx.all_local_trait_impls(()).iter() {
            for imp in impls {
                let sty = tcx.type_of(imp.to_def_id()).instantiate_identity().skip_norm_wip();
                let mut s = String::new();
                let _ = write!(
                    s,
                    "{{\"trait\":{},\"self_ty\":{},\"derived\":{},\"methods\":[",
                    esc(&self.path(*tr)),
                    esc(&self.ty_str(sty)),
                    tcx.is_automatically_derived(imp.to_def_id())
                );
                let mut first = true;
                for it in tcx.associated_items(imp.to_def_id()).in_definition_order() {
                    if matches!(it.kind, ty::AssocKind::Fn { .. }) {
                        if !first {
                            s.push(',');
                        }
                        first = false;
                        let _ = write!(s, "{}", esc(&self.path(it.def_id)));
                    }
                }
                s.push_str("]}");
                out.push(s);
            }
        }
        out.sort();
        format!("[{}]", out.join(","))
    }

    /// `<P as clap::builder::TypedValueParser>::Value` for a parser type `P`
    fn clap_value_ty(&self, owner: DefId, p: Ty<'tcx>) -> Option<String> {
        let tcx = self.tcx;
        let mut tvp: Option<DefId> = None;
        for (tr, _) in tcx.all_local_trait_impls(()).iter() {
            if self.path(*tr).ends_with("TypedValueParser") {
                tvp = Some(*tr);
            }
        }
        let tvp = tvp?;
        let value = tcx
            .associated_items(tvp)
            .in_definition_order()
            .find(|it| matches!(it.kind, ty::AssocKind::Type { .. }) && it.name().as_str() == "Value")?;
        let proj = Ty::new_projection(tcx, value.def_id, [p]);
        let env = TypingEnv::post_analysis(tcx, owner);
        match tcx.try_normalize_erasing_regions(env, ty::Unnormalized::new_wip(proj)) {
            Ok(t) => Some(self.ty_str(t)),
            Err(_) => None,
        }
    }
}

struct Cb;

impl Callbacks for Cb {
    fn after_analysis<'tcx>(&mut self, _c: &Compiler, tcx: TyCtxt<'tcx>) -> Compilation {
        let out_dir = match std::env::var("FCX_OUT") {
            Ok(d) => d,
            Err(_) => return Compilation::Continue,
        };
        let krate = tcx.crate_name(rustc_span::def_id::LOCAL_CRATE).to_string();
        let want = std::env::var("FCX_CRATES").unwrap_or_else(|_| "fclones".into());
        if !want.split(',').any(|w| w == krate) {
            return Compilation::Continue;
        }
        let is_test = tcx.sess.opts.test;
        let is_bin = std::env::var("CARGO_BIN_NAME").is_ok();
        let unit = match (is_test, is_bin) {
            (true, true) => "bintest",
            (true, false) => "libtest",
            (false, true) => "bin",
            (false, false) => "lib",
        };
        let cx = Cx { tcx };
        let mut bodies: Vec<String> = vec![];
        for ldid in tcx.hir_body_owners() {
            let kind = tcx.def_kind(ldid);
            cx.body_json(ldid, kind, unit, &mut bodies);
        }
        // clap parser value types: every call of Arg::value_parser::<P>
        let mut clap: Vec<String> = vec![];
        for ldid in tcx.hir_body_owners() {
            let kind = tcx.def_kind(ldid);
            if !matches!(kind, DefKind::Fn | DefKind::AssocFn | DefKind::Closure) {
                continue;
            }
            if tcx.is_coroutine(ldid.to_def_id()) {
                continue;
            }
            let body = tcx.optimized_mir(ldid.to_def_id());
            for data in body.basic_blocks.iter() {
                if let TerminatorKind::Call { func, .. } = &data.terminator().kind {
                    let fty = func.ty(&body.local_decls, tcx);
                    if let ty::FnDef(did, args) = fty.kind() {
                        let p = cx.path(*did);
                        if p.ends_with("Arg::value_parser") {
                            if let Some(pt) = args.iter().filter_map(|a| a.as_type()).next() {
                                let v = cx.clap_value_ty(ldid.to_def_id(), pt);
                                let (line, _) = cx.loc(data.terminator().source_info.span);
                                clap.push(format!(
                                    "{{\"in\":{},\"parser\":{},\"value\":{},\"line\":{}}}",
                                    esc(&cx.path(ldid.to_def_id())),
                                    esc(&cx.ty_str(pt)),
                                    opt_str(v),
                                    line
                                ));
                            }
                        }
                    }
                }
            }
        }
        let nonce = std::env::var("FCX_NONCE").unwrap_or_default();
        let mut features: Vec<String> = tcx
            .sess
            .config
            .iter()
            .filter(|(k, _)| k.as_str() == "feature")
            .map(|(_, v)| esc(&v.map(|v| v.to_string()).unwrap_or_default()))
            .collect();
        features.sort();
        let json = format!(
            "{{\"crate\":{},\"unit\":{},\"nonce\":{},\"cfg\":[{}],\"bodies\":[{}],\"adts\":{},\"impls\":{},\"clap\":[{}]}}\n",
            esc(&krate),
            esc(unit),
            esc(&nonce),
            features.join(","),
            bodies.join(",\n"),
            cx.adts_json(),
            cx.impls_json(),
            clap.join(",")
        );
        let file = format!("{}/{}-{}.json", out_dir, krate, unit);
        let tmp = format!("{}.tmp{}", file, std::process::id());
        std::fs::write(&tmp, json).expect("fcx: cannot write facts");
        std::fs::rename(&tmp, &file).expect("fcx: cannot rename facts");
        Compilation::Continue
    }
}

extern crate rustc_session;

fn main() {
    let mut args: Vec<String> = std::env::args().collect();
    // RUSTC_WORKSPACE_WRAPPER: argv[1] is the real rustc
    if args.len() > 1 && (args[1].ends_with("rustc") || args[1].contains("/rustc")) {
        args.remove(1);
    }
    let mut cb = Cb;
    rustc_driver::run_compiler(&args, &mut cb);
}

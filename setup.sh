#!/bin/sh
# Offline setup: build the fact extractor and pre-compile fclones' dependencies
# into /verif/.work/target (the checks re-check only the workspace members).
set -e
cd "$(dirname "$0")"
export CARGO_NET_OFFLINE=true
(cd driver && cargo build --offline 2>&1 | tail -3)
python3 -m fcverif --warm
python3 -m fcverif.fixture_test | tail -1

//! Planted instances for the engine self-test of /verif/fcverif (never part of any verdict on /repo).
#![allow(unused, clippy::all)]
use std::io;
use std::path::{Path, PathBuf};

// ---- table of mutating primitives / open-mode typestate
pub fn sink_remove(p: &Path) {
    let _ = std::fs::remove_file(p);
}
pub fn sink_open_write(p: &Path) -> io::Result<std::fs::File> {
    std::fs::OpenOptions::new().write(true).open(p)
}
pub fn open_read_only(p: &Path) -> io::Result<std::fs::File> {
    std::fs::OpenOptions::new().read(true).open(p)
}
pub fn sink_hard_link(a: &Path, b: &Path) -> io::Result<()> {
    std::fs::hard_link(a, b)
}

// ---- unit lint
pub fn bytes_into_take(s: &str) -> String {
    s.chars().take(s.len()).collect()
}
pub fn chars_into_slice(s: &str) -> &str {
    let mut n = 0;
    let mut it = s.chars();
    while let Some(_c) = it.next() {
        n += 1;
    }
    &s[..n]
}
pub fn bytes_into_slice(s: &str) -> &str {
    let mut n = 0;
    let mut it = s.chars();
    while let Some(c) = it.next() {
        n += c.len_utf8();
    }
    &s[..n]
}
pub fn chars_into_take(s: &str, t: &str) -> String {
    s.chars().take(t.chars().count()).collect()
}

// ---- error discipline
pub fn err_discarded() {
    let _ = std::fs::remove_file("x");
}
pub fn err_discarded_ok() -> Option<()> {
    std::fs::remove_file("x").ok()
}
pub fn err_propagated() -> io::Result<()> {
    std::fs::remove_file("x")?;
    Ok(())
}
pub fn err_logged() {
    if let Err(e) = std::fs::remove_file("x") {
        eprintln!("{e}");
    }
}
pub fn err_partially_handled(flag: bool) -> io::Result<()> {
    match std::fs::remove_file("x") {
        Ok(()) => Ok(()),
        Err(e) if flag => Err(e),
        Err(_) => Ok(()),
    }
}
/// "not there" is an answer: the NotFound edge is handled, every other error is returned
pub fn err_absent_is_an_answer() -> io::Result<bool> {
    match std::fs::remove_file("x") {
        Ok(()) => Ok(true),
        Err(e) if e.kind() == io::ErrorKind::NotFound => Ok(false),
        Err(e) => Err(e),
    }
}
/// ... but swallowing another kind is not
pub fn err_other_kind_swallowed() -> io::Result<bool> {
    match std::fs::remove_file("x") {
        Ok(()) => Ok(true),
        Err(e) if e.kind() == io::ErrorKind::PermissionDenied => Ok(false),
        Err(e) => Err(e),
    }
}
/// the error is wrapped by a helper whose result is returned
pub fn err_wrapped_by_helper() -> io::Result<()> {
    let refuse = |e: &io::Error| -> io::Result<()> { Err(io::Error::new(e.kind(), format!("refused: {e}"))) };
    match std::fs::remove_file("x") {
        Ok(()) => Ok(()),
        Err(e) => return refuse(&e),
    }
}
/// the failure is answered by a local helper that can only return an Err (no use of the error value itself)
pub fn err_refused_by_helper(flag: bool) -> io::Result<()> {
    let refuse = || -> io::Result<()> { Err(io::Error::new(io::ErrorKind::Other, "refused")) };
    match std::fs::remove_file("x") {
        Ok(()) if flag => Ok(()),
        _ => return refuse(),
    }
}
pub fn err_panics() {
    std::fs::remove_file("x").unwrap();
}
pub fn err_inspected_then_propagated() -> io::Result<()> {
    let r = std::fs::remove_file("x");
    if r.is_err() {
        eprintln!("failed");
    }
    r
}

// ---- truth tables
#[inline(never)]
pub fn atom_a() -> bool {
    std::env::var("A").is_ok()
}
#[inline(never)]
pub fn atom_b() -> bool {
    std::env::var("B").is_ok()
}
pub fn pred_or_not() -> bool {
    atom_a() || !atom_b()
}
pub fn pred_demorgan() -> bool {
    !(!atom_a() && atom_b())
}
pub fn pred_ladder() -> bool {
    if atom_a() {
        return true;
    }
    if atom_b() {
        false
    } else {
        true
    }
}
pub fn pred_and() -> bool {
    atom_a() && !atom_b()
}

// ---- label propagation
pub struct Cfg {
    pub input: PathBuf,
    pub tmp: PathBuf,
}
pub enum Holder {
    Keep(PathBuf),
    Temp(PathBuf),
}
pub fn flow_input_to_sink(c: &Cfg) {
    let p = c.input.clone();
    let _ = std::fs::remove_file(&p);
}
pub fn flow_tmp_to_sink(c: &Cfg) {
    let p = c.tmp.join("x");
    let _ = std::fs::remove_file(&p);
}
pub fn flow_through_closure(c: &Cfg) {
    let f = |p: &Path| {
        let _ = std::fs::remove_file(p);
    };
    f(&c.input);
}
fn helper(p: &Path) {
    let _ = std::fs::remove_dir(p);
}
pub fn flow_through_call(c: &Cfg) {
    helper(&c.input);
}
pub fn flow_through_enum(c: &Cfg) -> Holder {
    Holder::Temp(c.input.clone())
}
impl Drop for Holder {
    fn drop(&mut self) {
        match self {
            Holder::Keep(_) => {}
            Holder::Temp(p) => {
                let _ = std::fs::remove_file(p);
            }
        }
    }
}
pub fn flow_hash_does_not_carry(c: &Cfg) {
    let n = c.input.as_os_str().len();
    let p = c.tmp.join(format!("{:x}", n));
    let _ = std::fs::create_dir(&p);
}

// ---- correlated tests of one Result (state-aware path rule)
#[inline(never)]
pub fn step() -> io::Result<u32> {
    Ok(1)
}
#[inline(never)]
pub fn rollback() {}
pub fn rollback_correlated() -> io::Result<u32> {
    let r = step();
    if r.is_err() {
        rollback();
    }
    let v = r?;
    Ok(v)
}
pub fn rollback_missing_on_one_path(flag: bool) -> io::Result<u32> {
    let r = step();
    if r.is_err() && flag {
        rollback();
    }
    let v = r?;
    Ok(v)
}

// ---- buffered writers: flush discipline
pub fn buffered_dropped_unflushed(p: &Path, data: &[u8]) -> io::Result<()> {
    use std::io::Write;
    let mut w = std::io::BufWriter::new(std::fs::File::create(p)?);
    w.write_all(data)?;
    Ok(())
}
pub fn buffered_flushed(p: &Path, data: &[u8]) -> io::Result<()> {
    use std::io::Write;
    let mut w = std::io::BufWriter::new(std::fs::File::create(p)?);
    w.write_all(data)?;
    w.flush()
}
pub fn buffered_flush_ignored(p: &Path, data: &[u8]) -> io::Result<()> {
    use std::io::Write;
    let mut w = std::io::BufWriter::new(std::fs::File::create(p)?);
    w.write_all(data)?;
    let _ = w.flush();
    Ok(())
}
pub struct Sink<W: std::io::Write> {
    out: W,
}
impl<W: std::io::Write> Sink<W> {
    pub fn emit(&mut self, data: &[u8]) -> io::Result<()> {
        self.out.write_all(data)?;
        self.out.flush()
    }
}
pub fn buffered_flushed_by_callee(p: &Path, data: &[u8]) -> io::Result<()> {
    let mut s = Sink { out: std::io::BufWriter::new(std::fs::File::create(p)?) };
    s.emit(data)
}

// ---- identity hashes: delimiters
pub fn hash_undelimited(parts: &[&[u8]]) -> u64 {
    use std::hash::Hasher;
    let mut h = std::collections::hash_map::DefaultHasher::new();
    parts.iter().for_each(|p| h.write(p));
    h.finish()
}
pub fn hash_delimited(parts: &[&[u8]]) -> u64 {
    use std::hash::Hasher;
    let mut h = std::collections::hash_map::DefaultHasher::new();
    parts.iter().for_each(|p| {
        h.write_usize(p.len());
        h.write(p)
    });
    h.finish()
}
pub fn hash_by_impl(parts: &[&[u8]]) -> u64 {
    use std::hash::{Hash, Hasher};
    let mut h = std::collections::hash_map::DefaultHasher::new();
    parts.hash(&mut h);
    h.finish()
}

// ---- error discipline with a fallback: paths that are infeasible given the state of another Result
pub fn open_with_fallback(p: &Path) -> io::Result<std::fs::File> {
    let first = std::fs::OpenOptions::new().write(true).open(p);
    if let Err(e) = &first {
        if e.kind() == io::ErrorKind::PermissionDenied {
            if let Ok(f) = std::fs::File::open(p) {
                return Ok(f);
            }
        }
    }
    let f = first?;
    Ok(f)
}
pub fn open_with_fallback_swallowing(p: &Path) -> io::Result<()> {
    let first = std::fs::OpenOptions::new().write(true).open(p);
    if first.is_err() {
        if let Ok(_f) = std::fs::File::open(p) {
            return Ok(());
        }
        return Ok(());
    }
    let _f = first?;
    Ok(())
}

#!/usr/bin/env python3
"""tools/mk_patch.py <out.patch> <file> <<< python-edit-script
Make a patch against /repo HEAD: the edit script (stdin) receives `s` (text of <file>) and must assign the new text to `s`."""
import sys, os, subprocess, tempfile, shutil
out, rel = sys.argv[1], sys.argv[2]
code = sys.stdin.read()
d = tempfile.mkdtemp(prefix='fcverif-mk-')
try:
    for side in ('a', 'b'):
        os.makedirs(os.path.join(d, side))
        subprocess.run('git -C /repo archive HEAD %s | tar -x -C %s' % (rel, os.path.join(d, side)), shell=True, check=True)
    p = os.path.join(d, 'b', rel)
    env = {'s': open(p).read()}
    before = env['s']
    exec(code, env)
    if env['s'] == before:
        sys.exit('edit script changed nothing')
    open(p, 'w').write(env['s'])
    r = subprocess.run(['diff', '-u', 'a/' + rel, 'b/' + rel], cwd=d, capture_output=True, text=True)
    open(out, 'w').write(r.stdout)
    print(r.stdout)
finally:
    shutil.rmtree(d, ignore_errors=True)

#!/bin/bash
# tools/allchecks.sh - run the 20 checks (no evidence written) on /repo's working tree; exit 1 if anything but OK / KNOWN-FINDING shows up
cd "$(dirname "$0")/.." || exit 3
bad=0
for i in $(seq -w 1 20); do
  out=$(FCVERIF_NO_EVIDENCE=1 ./check C$i 2>&1); rc=$?
  echo "$out" | grep -E "^FAIL|^MISSING|^VIOLATION|^Traceback|^[A-Za-z]*Error:" | cut -c1-240
  echo "$out" | tail -1 | grep -v " 0 violations (0 known)"
  [ $rc -ne 0 ] && bad=1
done
[ $bad -eq 0 ] && echo "ALL-CHECKS-OK" || { echo "ALL-CHECKS-FAILED"; exit 1; }

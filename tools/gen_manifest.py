#!/usr/bin/env python3
"""Regenerate /verif/MANIFEST.json from the rule registry."""
import json, os, sys
sys.path.insert(0, os.path.dirname(os.path.dirname(os.path.abspath(__file__))))
from fcverif.rules import REGISTRY, RULE_DOC, load_all, PROPS

load_all()
NA = {}
try:
    from fcverif.rules.na import NOT_APPLICABLE as NA
except Exception:
    NA = {}
checks = []
for p in PROPS:
    if p not in REGISTRY:
        continue
    d = RULE_DOC[p]
    checks.append({
        'property_id': p,
        'quick_cmd': './check %s --tier quick' % p,
        'thorough_cmd': './check %s --tier thorough' % p,
        'evidence_file': '/verif/evidence/%s.json' % p,
        'replay_cmd_template': './check %s --replay {path}' % p,
        'engine': 'fcverif',
        'level_claimed': {
            'category': 'other',
            'text': 'static conformance of the structural clauses %s; %s The behaviour itself is not decided.' % (
                ', '.join(sorted(d['rules'])), d['explanation']),
            'design_ref': 'DESIGN.md section 4, ' + p,
        },
        'level_note': 'Trusted base: rustc MIR construction/type resolution (nightly 1.97, opt-level 0), documented behaviour of external crates '
                      '(named leaf callees), Linux/x86-64 cfg. Not decided: ' + d.get('not_decided', ''),
        'technique': d.get('technique', 'static analysis: repository-specific rules over resolved MIR (CFG dominance / path rules, def-use slices, call graph, label propagation)'),
    })
na = [{'property_id': p, 'reason': NA.get(p, 'check not built yet (work in progress); no verdict is claimed')} for p in PROPS if p not in REGISTRY]
m = {
    'version': 1,
    'setup_cmd': 'cd /verif && ./setup.sh',
    'hooks': {
        'guard': 'fclones_verif',
        'enable': 'none needed: static analysis inspects the unmodified source; no hooks are compiled into /repo',
        'baseline_off_cmd': 'cd /repo && cargo nextest run --workspace --no-fail-fast --test-threads 8 --offline || cargo test --workspace --no-fail-fast --offline',
        'source_commits': [],
        'add_only': True,
    },
    'engines': [
        {'name': 'fcx', 'path': 'driver/', 'serves_properties': [c['property_id'] for c in checks],
         'kind_free_text': 'rustc_private driver (RUSTC_WORKSPACE_WRAPPER) dumping resolved MIR, ADT/impl tables and clap value types of /repo\'s current tree as JSON facts'},
        {'name': 'fcverif', 'path': 'fcverif/', 'serves_properties': [c['property_id'] for c in checks],
         'kind_free_text': 'Python rule engine: CFG dominance/path rules, def-use slices, error-discipline classification, guard extraction, call graph + effect table, label propagation'},
    ],
    'checks': checks,
    'not_applicable': na,
    'notes': 'All verdicts are computed from /repo\'s current source without executing fclones. Known findings: known_findings.json. Seeded breaking changes: seeded/. See DESIGN.md.',
}
with open(os.path.join(os.path.dirname(os.path.dirname(os.path.abspath(__file__))), 'MANIFEST.json'), 'w') as f:
    json.dump(m, f, indent=1)
print('checks:', [c['property_id'] for c in checks], 'na:', [n['property_id'] for n in na])

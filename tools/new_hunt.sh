#!/bin/bash
# tools/new_hunt.sh <tag> <PROP>...  - scratch worktree + prompt for a defect-hunting sub-agent (finds EXISTING violations, does not seed any)
tag=$1; shift
mkdir -p /tmp/hunt/$tag-out
git -C /repo worktree prune
git -C /repo worktree add -q --detach /tmp/hunt/$tag HEAD || exit 1
python3 - "$tag" "$@" <<'PY'
import json, sys
tag, props = sys.argv[1], sys.argv[2:]
recs = {json.loads(l)['id']: json.loads(l) for l in open('/verif/properties.jsonl')}
kf = json.load(open('/verif/known_findings.json'))
txt = []
for p in props:
    rec = recs[p]
    txt.append("### %s — %s\n\n%s\n\nQuantified over: %s\n\nAnchored in files: %s\nMechanisms: %s\n" % (
        rec['id'], rec['title'], rec['statement'], rec['quantifier']['text'], ', '.join(rec['anchors']['files']),
        '; '.join('%s (%s)' % (m['name'], m['where']) for m in rec['anchors']['mechanism'])))
    known = sorted({e['line'].split(' ', 3)[3] for e in kf['fixed'] if e['property'] == p} | {e.get('line', '') for e in kf['open'] if e.get('property') == p})
    if known:
        txt.append("Already known for %s (repaired in this checkout, or recorded; do not report these again):\n%s\n" % (p, '\n'.join('- ' + k for k in known if k)))
s = """You are reviewing the Rust program fclones (a duplicate file finder; CLI + library) for GENUINE, EXISTING defects. A git checkout is at @WT@ - work only there
(never touch /repo or /verif; do not use `git stash`). The sandbox has no network; build with `cd @WT@ && CARGO_NET_OFFLINE=true CARGO_TARGET_DIR=@WT@/target cargo build --offline`
(binary: @WT@/target/debug/fclones). The documentation is in @WT@/README.md and `fclones <subcommand> --help`.

Below are behavioural properties that users rely on. Your job: find concrete inputs (directory trees, file names, option combinations, report files, timing of changes, failing system calls...)
for which the CURRENT code violates one of these properties. Read the anchored code carefully, form hypotheses about corner cases the authors may have missed (boundary values, unusual
option combinations, special characters, symlinks/hard links, empty inputs, off-by-one, error paths whose result is dropped, sibling functions that disagree), and TEST each hypothesis end to end with the real binary.
Only report what you reproduced. Quality over quantity: 1-4 solid findings are ideal; if you find none after a serious search, say so and list the hypotheses you ruled out.

@PROPS@

For each finding write, in @OUT@/findings.txt: the property id, a one-paragraph explanation naming the file/function/line responsible, the exact reproduction (also as a runnable script
@OUT@/repro_<n>.sh that takes the checkout path as $1, builds nothing, uses @WT@/target/debug/fclones, creates its scratch files under a fresh mktemp -d, prints what it observed and exits 1 if the
defect is present, 0 if not), what the documented/expected behaviour is and why, and a suggestion for a minimal repair. Do not change the source (temporary debug prints are fine but revert them).
Your final message should contain the full findings text as well (write the file with a shell heredoc; files ending in .md cannot be written here)."""
s = s.replace('@WT@', '/tmp/hunt/' + tag).replace('@OUT@', '/tmp/hunt/%s-out' % tag).replace('@PROPS@', '\n'.join(txt))
open('/tmp/hunt/%s.prompt.txt' % tag, 'w').write(s)
print('/tmp/hunt/%s.prompt.txt' % tag)
PY

#!/bin/bash
# lists the seed / mutant / benign patches that no longer apply to /repo HEAD
D=$(mktemp -d /tmp/pc-XXXX); git -C /repo archive HEAD | tar -x -C $D
bad=0
for p in /verif/seeded/*/patch.diff /verif/mutants/*.patch /verif/benign/*.patch; do
  [ -f "$p" ] || continue
  if ! (cd $D && patch -p1 -s -f --dry-run < "$p" >/dev/null 2>&1); then echo "STALE $p"; bad=$((bad+1)); fi
done
rm -rf $D; echo "$bad stale"

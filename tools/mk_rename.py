#!/usr/bin/env python3
"""tools/mk_rename.py <out.patch> <file> <fn-regex> old=new [old=new ...] : benign variant that renames locals / parameters inside the
functions whose `fn` line matches <fn-regex> (to the matching closing brace at the same indentation). Field accesses (`.old`) and struct
field names (`old:`) are left alone; shorthand field initialisers are not handled (check that the result compiles)."""
import sys, re, os, subprocess, tempfile, shutil
out, rel, fnrx = sys.argv[1:4]
pairs = [a.split('=') for a in sys.argv[4:]]
d = tempfile.mkdtemp(prefix='fcverif-rn-')
try:
    for side in ('a', 'b'):
        os.makedirs(os.path.join(d, side))
        subprocess.run('git -C /repo archive HEAD %s | tar -x -C %s' % (rel, os.path.join(d, side)), shell=True, check=True)
    p = os.path.join(d, 'b', rel)
    lines = open(p).read().split('\n')
    i = 0
    n = 0
    while i < len(lines):
        if re.search(r'\bfn\b', lines[i]) and re.search(fnrx, lines[i]):
            indent = len(lines[i]) - len(lines[i].lstrip())
            j = i
            while j < len(lines) and not (lines[j].startswith(' ' * indent + '}') and len(lines[j]) - len(lines[j].lstrip()) == indent and j > i):
                j += 1
            in_sig = True
            for k in range(i, min(j + 1, len(lines))):
                for old, new in pairs:
                    if in_sig or re.search(r'\blet\s+(mut\s+)?%s\s*:' % re.escape(old), lines[k]) or re.search(r'\|[^|]*\b%s\s*:[^|]*\|' % re.escape(old), lines[k]):
                        new_line = re.sub(r'(?<![\w.])%s\b' % re.escape(old), new, lines[k])       # a parameter / typed binding: `old: Type`
                    else:
                        new_line = re.sub(r'(?<![\w.])%s\b(?!\s*:[^:])' % re.escape(old), new, lines[k])
                    if new_line != lines[k]:
                        n += 1
                        lines[k] = new_line
                if lines[k].rstrip().endswith('{') or lines[k].rstrip().endswith(';'):
                    in_sig = False
            i = j
        i += 1
    if not n:
        sys.exit('nothing renamed')
    open(p, 'w').write('\n'.join(lines))
    r = subprocess.run(['diff', '-u', 'a/' + rel, 'b/' + rel], cwd=d, capture_output=True, text=True)
    open(out, 'w').write(r.stdout)
    print(n, 'lines changed')
finally:
    shutil.rmtree(d, ignore_errors=True)

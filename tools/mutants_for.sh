#!/bin/bash
# tools/mutants_for.sh <PROP>... : every mutant / seed recorded as detected by <PROP> (seeded/matrix.json) must still be detected by it. Prints the misses.
cd /verif
for prop in "$@"; do
  python3 - "$prop" <<'PY' > /tmp/mf.$$.lst
import json,sys
m=json.load(open('/verif/seeded/matrix.json'))
for name, v in m.items():
    det = v.get('detected_by', {})
    if sys.argv[1] in det:
        print(name)
PY
  n=0; miss=0
  while read name; do
    p=/verif/$name; [ -d "$p" ] && p=$p/patch.diff
    [ -f "$p" ] || continue
    n=$((n+1))
    out=$(tools/try_seed.sh $p $prop 2>&1)
    if ! echo "$out" | grep -q "^VIOLATION"; then miss=$((miss+1)); echo "MISSED by $prop: $name  $(echo "$out" | tail -1 | cut -c1-120)"; fi
  done < /tmp/mf.$$.lst
  echo "$prop: $n changes re-checked, $miss missed"
done
rm -f /tmp/mf.$$.lst

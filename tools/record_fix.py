#!/usr/bin/env python3
"""tools/record_fix.py <Dn> <commit> <mutant-name> <design-row-cells: 'rule | where | what'> <repro> -- <property> <key> <what failed> [-- <property> <key> <what failed>]...
Records a repaired defect: known_findings.json `fixed` entries, mutants/<mutant-name>.patch (reverse of the commit), DESIGN.md section 5 row,
fix-commit list and reproduction list."""
import sys, json, subprocess, re
dn, commit, mutant, row, repro = sys.argv[1:6]
rest = sys.argv[6:]
entries = []
cur = []
for a in rest:
    if a == '--':
        if cur:
            entries.append(cur)
        cur = []
    else:
        cur.append(a)
if cur:
    entries.append(cur)
kf = json.load(open('/verif/known_findings.json'))
for prop, key, what in entries:
    kf['fixed'].append({'property': prop, 'key': key, 'commit': commit, 'line': 'fixed: property=%s %s %s (%s)' % (prop, commit, what, dn)})
json.dump(kf, open('/verif/known_findings.json', 'w'), indent=1)
d = subprocess.run(['git', '-C', '/repo', 'diff', commit, commit + '~1'], capture_output=True, text=True).stdout
open('/verif/mutants/%s.patch' % mutant, 'w').write(d)
subj = subprocess.run(['git', '-C', '/repo', 'log', '-1', '--format=%s', commit], capture_output=True, text=True).stdout.strip()
s = open('/verif/DESIGN.md').read()
rows = [m for m in re.finditer(r'^\| D\d+ \|.*\n', s, re.M)]
last = rows[-1]
cells = [c.strip() for c in row.split('|')]
s = s[:last.end()] + '| %s | %s | %s | %s | fixed |\n' % (dn, cells[0], cells[1], cells[2]) + s[last.end():]
s = s.replace("`fix:` commits in `/repo` (oldest last):\n\n", "`fix:` commits in `/repo` (oldest last):\n\n    %s %s\n" % (commit, subj), 1)
m = re.search(r'  own review: D78 `o1/repro_1.sh`;\n(  round 4: .*\n)?', s)
if m:
    if m.group(1):
        s = s[:m.end(1) - 2] + ', %s `%s`;\n' % (dn, repro) + s[m.end(1):]
    else:
        s = s[:m.end()] + '  round 4: %s `%s`;\n' % (dn, repro) + s[m.end():]
open('/verif/DESIGN.md', 'w').write(s)
n = open('/verif/hunt/NOTES.md').read()
print('recorded', dn, commit, subj)

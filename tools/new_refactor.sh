#!/bin/bash
# tools/new_refactor.sh <tag> <PROP>...  - scratch worktree + prompt for a sub-agent that writes BEHAVIOUR-PRESERVING refactorings
# of the code behind the given properties (independent benign variants: the checks must stay silent on every one of them).
tag=$1; shift
mkdir -p /tmp/refac/$tag-out
git -C /repo worktree prune
git -C /repo worktree add -q --detach /tmp/refac/$tag HEAD || exit 1
python3 - "$tag" "$@" <<'PY'
import json, sys
tag, props = sys.argv[1], sys.argv[2:]
recs = {json.loads(l)['id']: json.loads(l) for l in open('/verif/properties.jsonl')}
txt = []
for p in props:
    rec = recs[p]
    txt.append("### %s — %s\n\n%s\n\nAnchored in files: %s\nMechanisms: %s\n" % (
        rec['id'], rec['title'], rec['statement'], ', '.join(rec['anchors']['files']),
        '; '.join('%s (%s)' % (m['name'], m['where']) for m in rec['anchors']['mechanism'])))
s = """You are a maintainer of the Rust program fclones (a duplicate file finder; CLI + library). A git checkout is at @WT@ - work only there (never touch /repo or /verif;
do not use `git stash`). The sandbox has no network; build with `cd @WT@ && CARGO_NET_OFFLINE=true CARGO_TARGET_DIR=@WT@/target cargo build --offline`, test with
`CARGO_NET_OFFLINE=true CARGO_TARGET_DIR=@WT@/target cargo test --offline` (one test, cache::test::return_none_if_different_transform_was_used, is known to be flaky: re-run it once if it fails).

Your job: write 8 independent, realistic, BEHAVIOUR-PRESERVING refactorings (clean-ups a maintainer would plausibly make in a pull request) of the code that implements the mechanisms
behind the properties listed below. "Behaviour-preserving" is strict: for every input, option combination, error, crash point and thread schedule the observable behaviour is the same as
before - same files reported / changed, same order of the file-system operations and of lock / rename / remove steps, same messages and exit codes, same handling of every error
(nothing newly ignored, nothing newly fatal), no additional or missing system calls that change anything, same cost class. The properties must still hold, obviously. Do NOT fix bugs and do NOT
introduce any; if you are not certain that a change is exactly equivalent, do not make it.

Vary the KIND of refactoring, and go for the ones that change the shape of the code the most while keeping its meaning, e.g.: extract a block into a helper function or method (or inline
a small helper into its only caller); turn a `match` into `if let` / `let else` / combinators (`map`, `and_then`, `ok_or`, `?`) or the reverse; turn an iterator chain into a `for` loop or
the reverse; nested `if` <-> early `return` / `continue`; De Morgan and swapped branches (`if !a {x} else {y}`); split or merge conditions; introduce or remove local variables; reorder
statements that are truly independent; closure <-> named function; rename locals, private functions, private fields; move a private function to another module; replace an API by an
exactly equivalent one (`fs::metadata(p)` <-> `p.metadata()`, `a.cmp(&b) == Less` <-> `a < b`, `iter().any()` <-> loop with flag); change a private data structure to an equivalent one
that keeps the order semantics; generic parameter <-> `impl Trait`; a guard clause moved into the callee when the callee has one caller. Each refactoring should touch 10-100 lines and
sit in (or right around) the functions named by the mechanisms below - not in tests, documentation or unrelated code.

@PROPS@

Each refactoring is made on a clean checkout of HEAD (so the 8 patches are independent of each other): make the change, run `cargo build` and the full test suite (must pass), `cargo fmt`,
save it with `git -C @WT@ diff > @OUT@/<nn>-<short-name>.patch`, then `git -C @WT@ checkout -- .` before the next one. Also append one line per patch to @OUT@/index.txt:
`<nn>-<short-name>.patch | <property ids it sits behind> | <function(s) touched> | <what kind of refactoring and why it is exactly equivalent>`. Write files with shell heredocs / git
diff (files ending in .md cannot be written here). Your final message should list the index lines. Leave the checkout clean."""
s = s.replace('@WT@', '/tmp/refac/' + tag).replace('@OUT@', '/tmp/refac/%s-out' % tag).replace('@PROPS@', '\n'.join(txt))
open('/tmp/refac/%s.prompt.txt' % tag, 'w').write(s)
print('/tmp/refac/%s.prompt.txt' % tag)
PY

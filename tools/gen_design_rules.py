#!/usr/bin/env python3
"""Regenerate the per-property rule tables of DESIGN.md (between the GENERATED markers) from the rule registry."""
import os, sys, json, re
VERIF = os.path.dirname(os.path.dirname(os.path.abspath(__file__)))
sys.path.insert(0, VERIF)
from fcverif.rules import REGISTRY, RULE_DOC, load_all, PROPS
load_all()
props = {json.loads(l)['id']: json.loads(l) for l in open(os.path.join(VERIF, 'properties.jsonl'))}
kf = json.load(open(os.path.join(VERIF, 'known_findings.json')))
out = []
for p in PROPS:
    d = RULE_DOC[p]
    out.append('### %s - %s\n' % (p, props[p]['title']))
    out.append(d['explanation'] + '\n')
    out.append('| rule | decides |\n|---|---|')
    for r in sorted(d['rules']):
        out.append('| %s | %s |' % (r, d['rules'][r].replace('|', '\\|')))
    out.append('\n*Not decided:* ' + d.get('not_decided', '') + '\n')
    fx = [e for e in kf.get('fixed', []) if e['property'] == p]
    op = [e for e in kf.get('open', []) if e['property'] == p]
    if fx:
        out.append('*Fired on the pinned tree, repaired:* ' + '; '.join(sorted({'%s (%s)' % (e['key'].split('|')[0], e['commit']) for e in fx})) + '\n')
    if op:
        out.append('*Open known findings:* ' + '; '.join(e['key'] for e in op) + '\n')
block = '\n'.join(out)
dp = os.path.join(VERIF, 'DESIGN.md')
s = open(dp).read()
a, b = '<!-- GENERATED:RULES:BEGIN -->', '<!-- GENERATED:RULES:END -->'
if a in s and b in s:
    s = s[:s.index(a) + len(a)] + '\n' + block + '\n' + s[s.index(b):]
    open(dp, 'w').write(s)
    print('DESIGN.md rule tables regenerated (%d lines)' % len(block.splitlines()))
else:
    print(block)

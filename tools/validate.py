#!/usr/bin/env python3-vt
import json, jsonschema, glob, sys
jsonschema.validate(json.load(open('/verif/MANIFEST.json')), json.load(open('/root/.vp/MANIFEST.schema.json')))
es = json.load(open('/root/.vp/EVIDENCE.schema.json'))
for f in sorted(glob.glob('/verif/evidence/C*.json')):
    jsonschema.validate(json.load(open(f)), es)
print('manifest + %d evidence files valid' % len(glob.glob('/verif/evidence/C*.json')))

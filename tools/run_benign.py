#!/usr/bin/env python3
"""Behaviour-preserving variants must stay silent: apply each /verif/benign/*.patch to a scratch copy and run the checks."""
import os, sys, glob, shutil, subprocess, tempfile, re
VERIF = os.path.dirname(os.path.dirname(os.path.abspath(__file__)))
only = sys.argv[1:]
ALL = ['C%02d' % i for i in range(1, 21)]
bad = 0
for patch in sorted(glob.glob(os.path.join(VERIF, 'benign', '*.patch'))):
    name = os.path.basename(patch)[:-6]
    if only and not any(o in name for o in only):
        continue
    scratch = tempfile.mkdtemp(prefix='fcverif-bn-')
    try:
        dst = os.path.join(scratch, 'repo')
        shutil.copytree('/repo', dst, ignore=shutil.ignore_patterns('target', '.git'), symlinks=True)
        r = subprocess.run(['patch', '-p1', '-s', '-f', '-i', patch], cwd=dst, capture_output=True, text=True)
        if r.returncode != 0:
            print(name, 'PATCH-FAILS', r.stdout[-200:])
            bad += 1
            continue
        env = dict(os.environ, FCVERIF_REPO=dst, FCVERIF_NO_EVIDENCE='1', FCVERIF_NO_SELFTEST='1')
        props = ALL if os.environ.get('BENIGN_ALL') else sorted(set(re.findall(r'C\d\d', name)) | set())
        res = []
        for p in props:
            r = subprocess.run([sys.executable, '-m', 'fcverif', p], cwd=VERIF, env=env, capture_output=True, text=True)
            if r.returncode != 0:
                fails = [l[:260] for l in r.stdout.splitlines() if l.startswith(('FAIL', 'BUILD'))]
                res.append((p, r.returncode, fails[:3]))
        if res:
            bad += 1
            print(name, 'FALSE-ALARM', res)
        else:
            print(name, 'silent (%s)' % ','.join(props))
    finally:
        shutil.rmtree(scratch, ignore_errors=True)
sys.exit(1 if bad else 0)

#!/bin/bash
# tools/try_seed.sh <seed-dir-or-patch> <PROP>...  : apply a patch to /repo, run the named checks, undo.
p=$1; shift
[ -d "$p" ] && p=$p/patch.diff; p=$(readlink -f "$p")
cd /repo || exit 9
if ! git diff --quiet; then echo "/repo has uncommitted changes"; exit 9; fi
git apply "$p" 2>/dev/null || patch -p1 -s -f --no-backup-if-mismatch -i "$p" >/dev/null || { git checkout -- .; echo "patch does not apply: $p"; exit 8; }
for prop in "$@"; do (cd /verif && FCVERIF_NO_EVIDENCE=1 ./check $prop | grep -E "^(FAIL|VIOLATION|KNOWN|BUILD|C[0-9]+:)" | cut -c1-400); done
git checkout -- .

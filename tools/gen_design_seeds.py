#!/usr/bin/env python3
"""Regenerate the seeded-changes table of DESIGN.md from seeded/*/meta.json."""
import os, json, glob
VERIF = os.path.dirname(os.path.dirname(os.path.abspath(__file__)))
rows = []
for d in sorted(glob.glob(os.path.join(VERIF, 'seeded', '*'))):
    mp = os.path.join(d, 'meta.json')
    if not os.path.exists(mp):
        continue
    m = json.load(open(mp))
    det = m.get('detected_by', {})
    rows.append('| %s (%s) | %s | %s | %s |' % (m.get('id'), m.get('property'), m.get('summary', 'see notes.md'),
                '; '.join('%s' % (v[0].split(' ')[0]) for k, v in sorted(det.items())) or '-', m.get('first_verdict', '')))
block = '| seeded change (written against) | what it does / needs | reported by (current rules) | history |\n|---|---|---|---|\n' + '\n'.join(rows)
dp = os.path.join(VERIF, 'DESIGN.md')
s = open(dp).read()
a, b = '<!-- GENERATED:SEEDS:BEGIN -->', '<!-- GENERATED:SEEDS:END -->'
if a in s:
    s = s[:s.index(a) + len(a)] + '\n' + block + '\n' + s[s.index(b):]
    open(dp, 'w').write(s)
    print('seed table regenerated: %d rows' % len(rows))
else:
    print(block)

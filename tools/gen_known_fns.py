#!/usr/bin/env python3
"""tools/gen_known_fns.py - regenerate fcverif/known_fns.json: the functions of /repo's CURRENT tree that the rules were confirmed against.
Run it after every repo commit that the checks pass on (a function added by a repair may be named by a rule from then on).
Functions not in this table are inlined into their callers before the rules run (fcverif/inline.py)."""
import json, os, subprocess, sys, glob
VERIF = os.path.dirname(os.path.dirname(os.path.abspath(__file__)))
sys.path.insert(0, VERIF)
from fcverif import extract as X
os.environ['FCVERIF_NO_INLINE'] = '1'
d, key, cached = X.extract('default')
for cfg in X.CONFIGS:
    if cfg != 'default':
        try:
            X.extract(cfg)
        except Exception as e:
            print('config', cfg, 'not extracted:', str(e)[:100])
fns = set()
names = {}
adts = {}
sigs = {}
for f in sorted(glob.glob(os.path.join(os.path.dirname(d), '*', '*.json'))):
    data = json.load(open(f))
    for a in data.get('adts', []):
        adts.setdefault(a['path'], [[v['name'], v['fields']] for v in a['variants']])
    for b in data['bodies']:
        if b['kind'] in ('fn', 'method'):
            fns.add(b['path'])
            sigs.setdefault(b['unit'] + '|' + b['path'], [b['argc'], [l['ty'] for l in b['locals'][:b['argc'] + 1]], b['kind'], b['file'], b.get('self_ty')])
        if b['kind'] in ('fn', 'method', 'closure') and b['path'] not in names:
            named = [[i, l['name'], l['ty']] for i, l in enumerate(b['locals']) if l.get('name')]
            if named or b.get('upvars'):
                names[b['unit'] + '|' + b['path']] = {'n': len(b['locals']), 'named': named, 'upvars': b.get('upvars', [])}
head = subprocess.run(['git', '-C', '/repo', 'rev-parse', '--short', 'HEAD'], capture_output=True, text=True).stdout.strip()
json.dump({'repo_head': head, 'facts_key': key, 'functions': sorted(fns), 'names': names, 'adts': adts, 'sigs': sigs}, open(os.path.join(VERIF, 'fcverif', 'known_fns.json'), 'w'), indent=0)
print(len(fns), 'functions at', head)

#!/bin/bash
# For every stale patch: try to apply it with fuzz to a scratch export of /repo HEAD; when that works and the result compiles,
# re-create the patch against HEAD (the old one is kept as *.orig once). Prints what is left for manual work.
set -u
D=$(mktemp -d /tmp/pr-XXXX); T=/tmp/pr-target
git -C /repo archive HEAD | tar -x -C $D
cp -r $D $D.base
export CARGO_TARGET_DIR=$T CARGO_NET_OFFLINE=true
(cd $D && cargo check --offline --lib -q 2>/dev/null)
for p in $(/verif/tools/patch_check.sh | grep '^STALE' | cut -d' ' -f2); do
  rsync -a --delete --exclude target $D.base/ $D/
  if (cd $D && patch -p1 -F3 -s -f --no-backup-if-mismatch < "$p" >/dev/null 2>&1); then
    find $D -name '*.orig' -o -name '*.rej' | xargs -r rm -f
    if (cd $D && cargo check --offline --lib -q 2>/dev/null); then
      [ -f "$p.orig" ] || { case "$p" in */patch.diff) [ -f "$(dirname $p)/patch.orig.diff" ] || cp "$p" "$(dirname $p)/patch.orig.diff";; esac; }
      (cd $D.base && diff -ruN --exclude target . $D 2>/dev/null | sed "s#^--- \./#--- a/#; s#^+++ $D/#+++ b/#; s#^diff -ruN.*##" | grep -v '^$' ) > "$p.new"
      # normalise headers for -p1
      python3 - "$p.new" <<'PY'
import sys,re
s=open(sys.argv[1]).read()
s=re.sub(r'^--- a/(\S+)', r'--- a/\1', s, flags=re.M)
open(sys.argv[1],'w').write(s)
PY
      mv "$p.new" "$p"; echo "REFRESHED $p"
    else
      echo "NOCOMPILE $p"
    fi
  else
    echo "MANUAL $p"
  fi
done
rm -rf $D $D.base

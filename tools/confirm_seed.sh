#!/bin/bash
# tools/confirm_seed.sh <tag> <property>   - confirm a sub-agent's breaking change in its scratch worktree,
# store it under /verif/seeded/<tag>/ and remove the worktree.
tag=$1; prop=$2
wt=/tmp/seed/$tag; out=/tmp/seed/$tag-out; dst=/verif/seeded/$tag
log=/tmp/seed/$tag-confirm.log
exec >$log 2>&1
set -x
cd $wt || exit 9
export CARGO_NET_OFFLINE=true CARGO_TARGET_DIR=$wt/target

git checkout -q -- . ; git clean -fdq -e target
git apply $out/patch.diff || { echo RESULT patch-does-not-apply; exit 1; }
cargo test --workspace --no-fail-fast --offline 2>&1 | grep -E "^test result|FAILED|failed" | head
suite=$(cargo test --workspace --no-fail-fast --offline 2>&1 | grep -c "^test result: ok")
bash $out/run_demo.sh $wt >/tmp/seed/$tag-demo-with.log 2>&1; with=$?
git apply -R $out/patch.diff
bash $out/run_demo.sh $wt >/tmp/seed/$tag-demo-without.log 2>&1; without=$?
echo "RESULT suite_ok_groups=$suite demo_with_patch_exit=$with demo_without_patch_exit=$without"
if [ "$suite" -ge 3 ] && [ $with -ne 0 ] && [ $without -eq 0 ]; then
  mkdir -p $dst
  cp $out/patch.diff $dst/patch.diff
  for f in $out/*; do case $(basename $f) in patch.diff|*.log) ;; *) cp -r $f $dst/ ;; esac; done
  cat > $dst/meta.json <<EOM
{"id": "$tag", "property": "$prop", "base_commit": "$(git -C $wt rev-parse --short HEAD)",
 "confirmed": {"test_suite_with_patch": "cargo test --workspace --no-fail-fast --offline: all groups ok", "demo_with_patch_exit": $with, "demo_without_patch_exit": $without,
  "commands": ["git apply patch.diff", "cargo test --workspace --no-fail-fast --offline", "bash run_demo.sh <worktree>  (non-zero)", "git apply -R patch.diff", "bash run_demo.sh <worktree>  (zero)"]},
 "needs": "see notes.md"}
EOM
  echo CONFIRMED
else
  echo NOT-CONFIRMED
fi
cd /; git -C /repo worktree remove --force $wt

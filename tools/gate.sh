#!/bin/bash
# tools/gate.sh - run all 20 checks; exit 0 only if they are all silent (use as `tools/gate.sh && git -C /repo commit ...`)
/verif/tools/allchecks.sh > /tmp/ac.txt 2>&1
rc=$?
grep "^FAIL\|^MISSING\|Traceback" /tmp/ac.txt | cut -c1-240
tail -1 /tmp/ac.txt
[ $rc = 0 ] && [ "$(tail -1 /tmp/ac.txt)" = "ALL-CHECKS-OK" ]

#!/bin/bash
# tools/new_seed.sh <tag> <PROP> ["ideas to avoid"]  - prepare a scratch worktree + prompt file for a seeding sub-agent.
# The sub-agent gets only: the property record (title, statement, quantifier, anchors) and its worktree path.
tag=$1; prop=$2; avoid=$3
mkdir -p /tmp/seed/$tag-out
git -C /repo worktree prune
git -C /repo worktree add -q --detach /tmp/seed/$tag HEAD || exit 1
python3 - "$tag" "$prop" "$avoid" <<'PY'
import json, sys
tag, prop, avoid = sys.argv[1:4]
rec = [json.loads(l) for l in open('/verif/properties.jsonl') if json.loads(l)['id'] == prop][0]
ptxt = "%s — %s\n\n%s\n\nQuantified over: %s\n\nWhy the existing tests cannot settle it: %s\n\nAnchored in files: %s\nMechanisms: %s\n" % (
    rec['id'], rec['title'], rec['statement'], rec['quantifier']['text'], rec['why_tests_cant'], ', '.join(rec['anchors']['files']),
    '; '.join('%s (%s)' % (m['name'], m['where']) for m in rec['anchors']['mechanism']))
t = open('/verif/tools/seed_prompt.tmpl').read()
extra = ('Other engineers have already tried these ideas, so pick something different, preferably in a different function or file: %s.' % avoid) if avoid else ''
s = t.replace('@WT@', '/tmp/seed/' + tag).replace('@OUT@', '/tmp/seed/%s-out' % tag).replace('@PROP@', ptxt).replace('@EXTRA@', extra)
open('/tmp/seed/%s.prompt.txt' % tag, 'w').write(s)
print('/tmp/seed/%s.prompt.txt' % tag)
PY
